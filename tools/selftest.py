#!/usr/bin/env python3
# must-fail corpus: every mutant of selftest/mutants.tsv must make the check of its property exit 1.
import sys, subprocess, os
only = sys.argv[1:] 
env = {**os.environ, 'GOFLAGS': '-mod=mod', 'GOPROXY': 'off', 'GOSUMDB': 'off', 'GOTOOLCHAIN': 'local'}
if subprocess.run(['git','-C','/repo','status','--porcelain'],capture_output=True,text=True).stdout.strip():
    print("REFUSED: /repo has uncommitted changes (commit them first)"); sys.exit(4)
ok = bad = 0
for ln in open('/verif/selftest/mutants.tsv'):
    if ln.startswith('#') or not ln.strip():
        continue
    prop, f, old, new, note = ln.rstrip('\n').split('\t')
    if only and prop not in only:
        continue
    old = old.encode().decode('unicode_escape'); new = new.encode().decode('unicode_escape')
    p = '/repo/' + f
    s = open(p).read()
    if s.count(old) != 1:
        print(f"SKIP {prop} {note}: pattern occurs {s.count(old)} times"); bad += 1; continue
    open(p, 'w').write(s.replace(old, new))
    try:
        b = subprocess.run(['go', 'build', './...'], cwd='/repo', capture_output=True, text=True, env=env)
        if b.returncode != 0:
            print(f"SKIP {prop} {note}: does not compile"); bad += 1; continue
        r = subprocess.run(['/verif/check', prop, 'quick'], capture_output=True, text=True, env=env)
        obl = [l.strip() for l in r.stdout.split('\n') if l.startswith('  obligation')]
        if r.returncode == 1:
            ok += 1; print(f"KILLED   {prop} {note}: {obl[0][:110] if obl else ''}")
        else:
            bad += 1; print(f"SURVIVED {prop} {note}: exit {r.returncode}")
    finally:
        subprocess.run(['git', '-C', '/repo', 'checkout', '--', f])
print(f"{ok} killed, {bad} survived/skipped")
sys.exit(1 if bad else 0)
