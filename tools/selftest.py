#!/usr/bin/env python3
# must-fail corpus: every mutant of selftest/mutants.tsv must make the check of its property exit 1.
# Works on scratch copies (a worktree of /repo's HEAD and a copy of /verif); /repo and /verif/evidence stay untouched.
import sys, subprocess, os, shutil
only = sys.argv[1:]
env = {**os.environ, 'GOFLAGS': '-mod=mod', 'GOPROXY': 'off', 'GOSUMDB': 'off', 'GOTOOLCHAIN': 'local'}
WT='/tmp/selftestwt'; VC='/tmp/selftestverif'
subprocess.run(['git','-C','/repo','worktree','remove','--force',WT],capture_output=True)
shutil.rmtree(WT,ignore_errors=True); shutil.rmtree(VC,ignore_errors=True)
subprocess.run(['git','-C','/repo','worktree','prune'])
if subprocess.run(['git','-C','/repo','worktree','add','-f','--detach',WT,'HEAD'],capture_output=True).returncode!=0:
    print('cannot create worktree'); sys.exit(3)
subprocess.run(['rsync','-a','--exclude','.git','--exclude','replays','/verif/',VC+'/'])
ok = bad = 0
try:
    for ln in open('/verif/selftest/mutants.tsv'):
        if ln.startswith('#') or not ln.strip():
            continue
        prop, f, old, new, note = ln.rstrip('\n').split('\t')
        if only and prop not in only:
            continue
        old = old.encode().decode('unicode_escape'); new = new.encode().decode('unicode_escape')
        p = WT + '/' + f
        s = open(p).read()
        if s.count(old) != 1:
            print(f"SKIP {prop} {note}: pattern occurs {s.count(old)} times", flush=True); bad += 1; continue
        open(p, 'w').write(s.replace(old, new))
        try:
            b = subprocess.run(['go', 'build', './...'], cwd=WT, capture_output=True, text=True, env=env)
            if b.returncode != 0:
                print(f"SKIP {prop} {note}: does not compile", flush=True); bad += 1; continue
            r = subprocess.run([VC+'/bin/vcheck','-verif',VC,'-root',WT,'-prop',prop,'-tier','quick','-no-replay'], capture_output=True, text=True, env=env, cwd=VC)
            obl = [l.strip() for l in r.stdout.split('\n') if l.startswith('  obligation')]
            if r.returncode == 1:
                ok += 1; print(f"KILLED   {prop} {note}: {obl[0][:110] if obl else ''}", flush=True)
            else:
                bad += 1; print(f"SURVIVED {prop} {note}: exit {r.returncode}", flush=True)
        finally:
            subprocess.run(['git', '-C', WT, 'checkout', '--', '.'])
finally:
    subprocess.run(['git','-C','/repo','worktree','remove','--force',WT],capture_output=True)
    shutil.rmtree(VC,ignore_errors=True)
print(f"{ok} killed, {bad} survived/skipped")
sys.exit(1 if bad else 0)
