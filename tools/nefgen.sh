#!/bin/bash
# Regenerate contract.nef / manifest.json of the named contracts of /repo's working tree with the
# pinned neo-go compiler (used for "fix:" commits so that the shipped executable carries the fix).
# usage: tools/nefgen.sh balance netmap ...
set -e
export GOFLAGS=-mod=mod GOPROXY=off GOSUMDB=off GOTOOLCHAIN=local
S=$(mktemp -d /tmp/nefgen.XXXXXX)
trap 'rm -rf "$S"' EXIT
rsync -a --exclude .git /repo/ "$S/"
cp "$(dirname "$0")/nefgen_test.go.txt" "$S/contracts/zz_nefgen_test.go"
(cd "$S/contracts" && NEFGEN="$*" NEFGEN_OUT="$S/out" go test -vet=off -count=1 -run TestNefgen . | tail -2)
for c in "$@"; do
  cp "$S/out/$c/contract.nef" "/repo/contracts/$c/contract.nef"
  cp "$S/out/$c/manifest.json" "/repo/contracts/$c/manifest.json"
done
