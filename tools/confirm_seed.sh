#!/bin/bash
# usage: confirm_seed.sh <agentdir e.g. /tmp/agents/c01/out/1> <seed-id e.g. C01-1> <property> [demo package dir, default tests]
# Confirms in a scratch worktree: suite passes with the change, demo fails with it and passes without; archives under /verif/seeded/<seed-id>
src=$1; id=$2; prop=$3; pk=${4:-tests}
export GOFLAGS=-mod=mod GOPROXY=off GOSUMDB=off GOTOOLCHAIN=local
S=/tmp/confirm.$$; rm -rf $S; git -C /repo worktree add -f --detach $S HEAD >/dev/null 2>&1 || exit 3
cd $S
res="{}"
git apply "$src/patch.diff" || { echo "$id: patch does not apply"; cd /; git -C /repo worktree remove --force $S; exit 3; }
go build ./... >/dev/null 2>&1 || { echo "$id: does not build"; cd /; git -C /repo worktree remove --force $S; exit 3; }
suite=$(go test -vet=off -count=1 ./... 2>&1 | grep -E "^(FAIL|---)" | head -3)
cp "$src/demo_test.go" $pk/zz_seeded_demo_test.go
fn=$(grep -o "func TestSeeded[A-Za-z0-9_]*" $pk/zz_seeded_demo_test.go | head -1 | sed 's/func //')
with=$(cd $pk && go test -vet=off -count=1 -run "^$fn\$" . 2>&1 | grep -E "^(ok|FAIL|---)" | head -2 | tr '\n' ' ')
git apply -R "$src/patch.diff"
without=$(cd $pk && go test -vet=off -count=1 -run "^$fn\$" . 2>&1 | grep -E "^(ok|FAIL|---)" | head -2 | tr '\n' ' ')
cd /; git -C /repo worktree remove --force $S
echo "$id: suite-with-change: ${suite:-PASS} | demo with change: $with | demo without: $without"
if [ -z "$suite" ] && echo "$with" | grep -q FAIL && echo "$without" | grep -q "^ok"; then
  d=/verif/seeded/$id; mkdir -p $d; cp "$src/patch.diff" "$src/demo_test.go" $d/; cp "$src/meta.txt" $d/agent_meta.txt 2>/dev/null
  python3 - "$d" "$id" "$prop" "$fn" <<'PY'
import json,sys
d,i,prop,fn=sys.argv[1:5]
meta=open(d+'/agent_meta.txt').read() if __import__('os').path.exists(d+'/agent_meta.txt') else ''
json.dump({"id":i,"property":prop,"demo_test":fn,"source":"independent sub-agent given only the property text and a scratch worktree without the contracts",
 "needs_to_manifest":meta.strip().split('\n')[0:12],
 "confirmed":"scratch worktree of /repo HEAD: go build ./... ok; go test -vet=off -count=1 ./... passes with the change; the demo test fails with the change and passes without it",
 "detected_by":"(filled in by tools/seeded_report.py)"},open(d+'/meta.json','w'),indent=1)
PY
  echo "$id: CONFIRMED and archived"
else
  echo "$id: NOT confirmed"
fi
