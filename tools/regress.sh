#!/bin/bash
# run every claimed check once (quick) and print one line each; non-zero exit if any check is not clean
cd /verif
rc=0
for p in $(python3 -c "import json;print(' '.join(c['property_id'] for c in json.load(open('MANIFEST.json'))['checks']))"); do
  out=$(./check $p quick 2>&1); code=$?
  line=$(echo "$out" | grep -E "^property" | sed 's/; load.*//' | cut -c1-60,$(echo "$out" | grep -E "^property" | grep -bo '; [0-9]* obligations' | head -1 | cut -d: -f1)-)
  und=$(echo "$out" | grep -c UNDECIDED)
  echo "$p exit=$code undecided=$und $(echo "$out" | grep -E '^property' | grep -o '[0-9]* obligations, [0-9]* discharged, [0-9]* violations, [0-9]* known findings') $(echo "$out" | grep -o 'wall [0-9.]*s')"
  [ $code -ne 0 ] && rc=1
  [ $und -ne 0 ] && rc=1
done
exit $rc
