#!/bin/bash
# usage: tryseed.sh <patch.diff> <prop> [prop...]  -- apply a seeded change to /repo, run the checks, revert
patch=$1; shift
if [ -n "$(git -C /repo status --porcelain)" ]; then echo "REFUSED: /repo has uncommitted changes (commit them first)"; exit 4; fi
cd /repo && git apply "$patch" || { echo "patch does not apply"; exit 3; }
for p in "$@"; do
  out=$(/verif/check $p quick 2>&1); code=$?
  echo "$p exit=$code"; echo "$out" | grep -E "^VIOLATION|^  obligation|ENGINE" | head -6 | cut -c1-250
done
git -C /repo checkout -- . ; git -C /repo status --short | head -3
