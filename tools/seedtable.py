#!/usr/bin/env python3
# prints the markdown table of all archived seeded changes from seeded/*/meta.json (DESIGN.md 15.5)
import json,glob,os,re
rows=[]
for d in sorted(glob.glob('/verif/seeded/*')):
    sid=os.path.basename(d); m=json.load(open(d+'/meta.json'))
    n=m['needs_to_manifest'][0] if m.get('needs_to_manifest') else ''
    n=re.sub(r'^\d*\.?\s*(CHANGE( \d)?|Change)[^:]*:\s*','',n)[:170].replace('|','/')
    db=m.get('detected_by',{})
    if isinstance(db,dict):
        if db.get('note'): det='not applicable any more: '+db['note'][:90]
        elif db.get('exit')==1:
            ob=db.get('first_obligation','').replace('obligation ','')
            ob=re.sub(r': obligation not discharged \((\w[\w-]*)\)',r' (\1)',ob)[:110]
            if ob.startswith('obligations of the committed baseline'): ob='contract-out-of-date (the restructured function no longer matches its loop contracts)'
            det=ob+(' — replay confirmed' if db.get('replay_confirmed') else '')
        else: det='**missed**'
    else: det=str(db)
    rows.append((sid,n,det))
print('| seed | change | caught by (first failing obligation) |'); print('|---|---|---|')
for r in rows: print('| %s | %s | %s |'%r)
