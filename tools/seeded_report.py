#!/usr/bin/env python3
# Runs the check of its property on every archived seeded change (apply to /repo, run, revert) and records the result in seeded/<id>/meta.json
import json, os, subprocess, sys, glob
if subprocess.run(['git','-C','/repo','status','--porcelain'],capture_output=True,text=True).stdout.strip():
    print("REFUSED: /repo has uncommitted changes"); sys.exit(4)
only = sys.argv[1:]
rows=[]
for d in sorted(glob.glob('/verif/seeded/*')):
    sid=os.path.basename(d)
    if only and sid not in only and sid.split('-')[0] not in only: continue
    meta=json.load(open(d+'/meta.json'))
    prop=meta['property']
    if subprocess.run(['git','-C','/repo','apply',d+'/patch.diff']).returncode!=0:
        print(sid,'patch does not apply'); continue
    try:
        r=subprocess.run(['/verif/check',prop,'quick'],capture_output=True,text=True)
        viol=[l for l in r.stdout.split('\n') if l.startswith('VIOLATION')]
        obl=[l.strip() for l in r.stdout.split('\n') if l.startswith('  obligation')]
        conf=[v for v in viol if 'no-failing-input-found' not in v]
        meta['detected_by']={'check':prop,'exit':r.returncode,'violations':len(viol),'replay_confirmed':len(conf),'first_obligation':(obl[0] if obl else '')[:200]}
        json.dump(meta,open(d+'/meta.json','w'),indent=1)
        print(f"{sid}: exit={r.returncode} violations={len(viol)} replay-confirmed={len(conf)} {(obl[0] if obl else '')[:110]}")
    finally:
        subprocess.run(['git','-C','/repo','checkout','--','.'])
