#!/usr/bin/env python3
# Runs the check of its property on every archived seeded change and records the result in seeded/<id>/meta.json.
# Works on scratch copies (a worktree of /repo's HEAD and a copy of /verif) so that /repo and /verif/evidence are
# not touched: usage: seeded_report.py [ids or property ids...]
import json, os, subprocess, sys, glob, shutil
WT='/tmp/seedwt'; VC='/tmp/seedverif'
only = sys.argv[1:]
subprocess.run(['git','-C','/repo','worktree','remove','--force',WT],capture_output=True)
shutil.rmtree(WT,ignore_errors=True); shutil.rmtree(VC,ignore_errors=True)
subprocess.run(['git','-C','/repo','worktree','prune'])
if subprocess.run(['git','-C','/repo','worktree','add','-f','--detach',WT,'HEAD'],capture_output=True).returncode!=0:
    print('cannot create worktree'); sys.exit(3)
subprocess.run(['rsync','-a','--exclude','.git','--exclude','replays','/verif/',VC+'/'])
try:
    for d in sorted(glob.glob('/verif/seeded/*')):
        sid=os.path.basename(d)
        if only and sid not in only and sid.split('-')[0] not in only: continue
        meta=json.load(open(d+'/meta.json'))
        prop=meta['property']
        if subprocess.run(['git','-C',WT,'apply',d+'/patch.diff'],capture_output=True).returncode!=0:
            meta['detected_by']={'check':prop,'note':'patch no longer applies to the current tree (the code it changes was repaired by a later fix commit)'}
            json.dump(meta,open(d+'/meta.json','w'),indent=1)
            print(sid,'patch does not apply'); continue
        try:
            r=subprocess.run([VC+'/bin/vcheck','-verif',VC,'-root',WT,'-prop',prop,'-tier','quick'],capture_output=True,text=True,cwd=VC)
            viol=[l for l in r.stdout.split('\n') if l.startswith('VIOLATION')]
            obl=[l.strip() for l in r.stdout.split('\n') if l.startswith('  obligation')]
            conf=[v for v in viol if 'no-failing-input-found' not in v]
            meta['detected_by']={'check':prop,'exit':r.returncode,'violations':len(viol),'replay_confirmed':len(conf),'first_obligation':(obl[0] if obl else '')[:200]}
            json.dump(meta,open(d+'/meta.json','w'),indent=1)
            print(f"{sid}: exit={r.returncode} violations={len(viol)} replay-confirmed={len(conf)} {(obl[0] if obl else '')[:110]}", flush=True)
        finally:
            subprocess.run(['git','-C',WT,'checkout','--','.'])
            subprocess.run(['git','-C',WT,'clean','-fdq'])
finally:
    subprocess.run(['git','-C','/repo','worktree','remove','--force',WT],capture_output=True)
    shutil.rmtree(VC,ignore_errors=True)
