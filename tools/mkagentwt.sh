#!/bin/bash
# usage: mkagentwt.sh <name>  -- creates /tmp/agents/<name>: a scratch worktree of /repo without the verification contracts
set -e
d=/tmp/agents/$1
rm -rf "$d"; git -C /repo worktree prune
git -C /repo worktree add -f --detach "$d" HEAD >/dev/null 2>&1
cd "$d"
git rm -q $(git ls-files | grep verif_contracts) 
git -c user.email=a@b -c user.name=builder commit -qm "scratch: strip verification contracts"
mkdir -p out
echo "$d ready at $(git rev-parse --short HEAD)"
