#!/usr/bin/env python3
# Thorough tier, after the obligations: the must-fail corpus of the property (hand mutants of selftest/mutants.tsv and the
# independently seeded changes of seeded/<prop>-*) is run against the quick check on scratch copies - each must be caught -
# and the witness tests of the property's open known findings are rerun on the real VM (they must still fail).
# The results are added to evidence/<prop>.json (coverage.must_fail_corpus, coverage.known_finding_witnesses). They measure
# the strength of the contracts; they do not decide the property (exit code is always 0).
import sys, subprocess, os, shutil, json, glob, re
prop = sys.argv[1]
V = os.path.dirname(os.path.dirname(os.path.abspath(__file__)))
env = {**os.environ, 'GOFLAGS': '-mod=mod', 'GOPROXY': 'off', 'GOSUMDB': 'off', 'GOTOOLCHAIN': 'local'}
WT = '/tmp/thor_%s_wt' % prop; VC = '/tmp/thor_%s_verif' % prop
def cleanup():
    subprocess.run(['git', '-C', '/repo', 'worktree', 'remove', '--force', WT], capture_output=True)
    shutil.rmtree(WT, ignore_errors=True); shutil.rmtree(VC, ignore_errors=True)
    subprocess.run(['git', '-C', '/repo', 'worktree', 'prune'], capture_output=True)
cleanup()
# the working tree under check, including uncommitted edits
if subprocess.run(['git', '-C', '/repo', 'worktree', 'add', '-f', '--detach', WT, 'HEAD'], capture_output=True).returncode != 0:
    print('thorough-extra: cannot create a scratch worktree'); sys.exit(0)
d = subprocess.run(['git', '-C', '/repo', 'diff', 'HEAD'], capture_output=True, text=True).stdout
if d.strip():
    subprocess.run(['git', '-C', WT, 'apply'], input=d, text=True, capture_output=True)
    subprocess.run(['git', '-C', WT, 'add', '-A'], capture_output=True)
    subprocess.run(['git', '-C', WT, '-c', 'user.email=v@v', '-c', 'user.name=v', 'commit', '-qm', 'tree under check'], capture_output=True)
subprocess.run(['rsync', '-a', '--exclude', '.git', '--exclude', 'replays', V + '/', VC + '/'])
def run_check():
    r = subprocess.run([VC + '/bin/vcheck', '-verif', VC, '-root', WT, '-prop', prop, '-tier', 'quick', '-no-replay'], capture_output=True, text=True, env=env, cwd=VC)
    obl = [l.strip() for l in r.stdout.split('\n') if l.startswith('  obligation')]
    return r.returncode, (obl[0][:140] if obl else '')
def reset():
    subprocess.run(['git', '-C', WT, 'checkout', '--', '.'], capture_output=True)
    subprocess.run(['git', '-C', WT, 'clean', '-fdq'], capture_output=True)
res = {'mutants_total': 0, 'mutants_killed': 0, 'seeds_total': 0, 'seeds_caught': 0, 'survivors': [], 'skipped': []}
try:
    for ln in open(V + '/selftest/mutants.tsv'):
        if ln.startswith('#') or not ln.strip(): continue
        p, f, old, new, note = ln.rstrip('\n').split('\t')
        if p != prop: continue
        old = old.encode().decode('unicode_escape'); new = new.encode().decode('unicode_escape')
        path = WT + '/' + f; s = open(path).read()
        if s.count(old) != 1:
            res['skipped'].append('mutant: ' + note + ' (pattern not found)'); continue
        open(path, 'w').write(s.replace(old, new))
        try:
            if subprocess.run(['go', 'build', './...'], cwd=WT, capture_output=True, env=env).returncode != 0:
                res['skipped'].append('mutant: ' + note + ' (does not compile)'); continue
            res['mutants_total'] += 1
            code, ob = run_check()
            if code == 1: res['mutants_killed'] += 1
            else: res['survivors'].append('mutant: ' + note)
            print(f"  must-fail mutant {'KILLED  ' if code == 1 else 'SURVIVED'} {note}: {ob}", flush=True)
        finally:
            reset()
    for sd in sorted(glob.glob(V + '/seeded/%s-*' % prop)):
        sid = os.path.basename(sd)
        if subprocess.run(['git', '-C', WT, 'apply', sd + '/patch.diff'], capture_output=True).returncode != 0:
            res['skipped'].append('seed ' + sid + ' (patch no longer applies)'); continue
        try:
            res['seeds_total'] += 1
            code, ob = run_check()
            if code == 1: res['seeds_caught'] += 1
            else: res['survivors'].append('seed ' + sid)
            print(f"  seeded change {sid} {'CAUGHT' if code == 1 else 'MISSED'}: {ob}", flush=True)
        finally:
            reset()
    wit = []
    for ln in open(V + '/known_findings.jsonl'):
        ln = ln.strip()
        if not ln: continue
        fd = json.loads(ln)
        if fd.get('status') != 'open' or fd.get('property') != prop or not fd.get('witness'): continue
        src = V + '/' + fd['witness']
        if not os.path.exists(src): continue
        m = re.search(r'func (Test\w+)\(', open(src).read())
        if not m: continue
        shutil.copy(src, WT + '/tests/zz_verif_witness_test.go')
        r = subprocess.run(['go', 'test', '-vet=off', '-count=1', '-timeout', '300s', '-run', '^' + m.group(1) + '$', '.'], cwd=WT + '/tests', capture_output=True, text=True, env=env)
        fails = r.returncode != 0 and '--- FAIL' in r.stdout
        wit.append({'finding': fd.get('finding'), 'test': m.group(1), 'still_fails_on_the_real_vm': fails})
        print(f"  known finding {fd.get('finding')}: witness test {m.group(1)} {'still fails on the real VM (finding persists)' if fails else 'does NOT fail any more'}", flush=True)
        reset()
    ev_path = V + '/evidence/%s.json' % prop
    if os.path.exists(ev_path):
        ev = json.load(open(ev_path))
        ev['coverage']['must_fail_corpus'] = res
        if wit: ev['coverage']['known_finding_witnesses'] = wit
        json.dump(ev, open(ev_path, 'w'), indent=1)
    print(f"thorough-extra {prop}: mutants {res['mutants_killed']}/{res['mutants_total']} killed, seeded changes {res['seeds_caught']}/{res['seeds_total']} caught, survivors: {res['survivors'] or 'none'}")
finally:
    cleanup()
