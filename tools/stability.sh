#!/bin/bash
# runs every claimed check with several solver seeds; prints any run that is not clean (development aid)
cd "$(dirname "$0")/.."
export GOFLAGS=-mod=mod GOPROXY=off GOSUMDB=off GOTOOLCHAIN=local
(cd govc && go build -o ../bin/vcheck ./cmd/vcheck) || exit 2
for seed in ${@:-1 2 3}; do
  for p in $(python3 -c "import json;print(' '.join(c['property_id'] for c in json.load(open('MANIFEST.json'))['checks']))"); do
    out=$(VERIF_SEED=$seed bin/vcheck -verif "$(pwd)" -prop $p -tier quick 2>&1); code=$?
    und=$(echo "$out" | grep -c UNDECIDED)
    echo "seed=$seed $p exit=$code undecided=$und $(echo "$out" | grep -o 'wall [0-9.]*s')"
    if [ $code -ne 0 ] || [ $und -ne 0 ]; then echo "$out" | grep -E "VIOLATION|UNDECIDED|ENGINE|retrying" | head -5; fi
  done
done
