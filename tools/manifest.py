#!/usr/bin/env python3
# Regenerates /verif/MANIFEST.json from the table below (kept here so that the manifest stays consistent).
import json, subprocess
TECH = ("contract-based deductive verification: weakest-precondition style VC generation (govc) over the typed Go AST of "
        "/repo with contracts kept as comments in /repo (build tag verif); obligations discharged by z3 4.8.12 / z3 5.1.0 / cvc5 1.0.3")
NOTE = ("Trusted: NeoVM atomicity (A1), storage/iterator model (A3), serialisation inverse laws (A4), witness predicate (A6), "
        "callee contracts do not re-enter (A7), govc's dialect model of the neo-go compiler (A8), solver soundness (A9); trusted contracts, "
        "axioms and input assumptions of exported methods (those granted by the property's quantifier text) are listed in the evidence file.")
CHECKS = {
 "C01": "Package invariant (no negative balance, supply == fold SumBal) proved inductive over every exported Balance method, with exact whole-view contracts for transfer (storage delta == notification delta) and the Mint/Burn supply deltas; unbounded in amounts, addresses, store contents and history length.",
 "C02": "Per-method postconditions: a balance can decrease only for `from` with its witness/calling-contract identity (public transfer) or under the Alphabet multisig witness; refused transfers change nothing. Proved for all arguments and stores.",
 "C03": "Zero-annotation authorisation sweep over every exported method of the 11 contracts against a one-line-per-method witness table kept in /repo: on every state-changing normal exit the documented witness formula holds (multisig thresholds for a symbolic committee size), methods declared safe (table and config.yml) never change state, verify methods return true only with the Alphabet multisig. The 'succeeds with exactly the required witnesses' direction is decided only as far as witness checks go.",
 "C06": "Contracts of the tick fan-out (cleanup: exactly one newEpoch(e) call per subscriber key in key order, nothing else changes) and of the four-byte big-endian epoch key codec (fourBytesBE equals a closed form, injective). Further clauses of NewEpoch are being added.",
 "C07": "Exact whole-store contracts of the ten candidate functions (add/update/remove in both lists, unknown state or candidate faults, self-service methods need node and Alphabet witnesses), plus nofault goals for the documented successes.",
 "C08": "Contracts of UpdateSnapshotCount (four loops with inductive invariants, ring contents modulo a symbolic count, no leak of older per-epoch lists, any accepted count >= 1), moveSnapshot and the epoch key codec; counts <= 255 as documented.",
 "C17": "Contracts of common.Vote (nested loops: result >= 1, every stored ballot is live, only the ballot list is written), InnerRingInvoker (returns a witnessed member key or nil), RemoveVotes, and of neofs Cheque/SetConfig/AlphabetUpdate (with Notary: Alphabet multisig and unconditional effect; without: only the ballot list and the decision's own key are written; call-site precondition W(voter) of Vote); the authorisation sweep of the neofs contract. The exact-threshold clause is not yet carried by a functional contract of Vote (listed as not claimed in DESIGN.md).",
 "C19": "Equalities on ghost call/notification logs: Cheque pays exactly amount once with its notification, InnerRingCandidateAdd transfers exactly the configured fee, Withdraw charges the fee once to Processing (Notary) or once per Alphabet key (loop invariant), deposits are reported only for GAS and 0 < amount <= 9000 GAS, alphabet.Emit sends floor(g/2) to Proxy and floor((g-floor(g/2))*7/8/N) to each Inner Ring key only with the witness of committee[index] (loop invariant) and never more than g (nonlinear lemma), Proxy/Processing/Alphabet callbacks reject other tokens.",
 "C09": "Contracts of Lock, Burn, transfer and the NewEpoch Find-loop (inductive invariants): expired locks are all released by the tick, non-expired accounts are never debited, a tick before every expiry changes nothing, a released lock cannot be released again. until == 0 is a recorded known finding.",
}
NA = {
 "C15": "Correspondence of shipped .nef/manifest/bindings with the sources is a relation between build artefacts and a compiler run (translation validation by regeneration), not a pre/postcondition of any function in /repo; no contract within reach of a deductive verifier over the Go sources expresses it (DESIGN.md section 11).",
}
props = [json.loads(l) for l in open('/verif/properties.jsonl')]
checks = []
for pid, text in sorted(CHECKS.items()):
    checks.append({"property_id": pid, "quick_cmd": f"./check {pid} quick", "thorough_cmd": f"./check {pid} thorough",
                   "evidence_file": f"evidence/{pid}.json", "replay_cmd_template": "./check replay {path}", "engine": "govc",
                   "level_claimed": {"category": "proof", "text": text, "design_ref": "DESIGN.md section 10, " + pid},
                   "level_note": NOTE, "technique": TECH})
na = []
for p in props:
    if p['id'] in CHECKS:
        continue
    na.append({"property_id": p['id'], "reason": NA.get(p['id'], "check under construction in this build session (contracts not yet committed); not claimed yet")})
commits = subprocess.check_output(['git', '-C', '/repo', 'log', '--format=%h %s', 'c942585..HEAD']).decode().strip().split('\n')
m = {"version": 1,
     "setup_cmd": "cd /verif/govc && GOFLAGS=-mod=mod GOPROXY=off GOSUMDB=off GOTOOLCHAIN=local go build -o /verif/bin/vcheck ./cmd/vcheck",
     "hooks": {"guard": "verif", "enable": "-tags=verif (comment-only contract files verif_contracts.go; no executable hook code)",
               "baseline_off_cmd": "cd /repo && go build ./... && go test -mod=mod -vet=off -count=1 ./...",
               "source_commits": commits, "add_only": True},
     "engines": [{"name": "govc", "path": "govc", "serves_properties": sorted(CHECKS),
                  "kind_free_text": "self-written VC generator over go/ast+go/types (x/tools v0.29.0) + SMT (z3 4.8.12, z3 5.1.0, cvc5 1.0.3 raced per query); contracts as /*@ @*/ comment blocks in /repo"}],
     "checks": checks, "not_applicable": na,
     "notes": "Genuine defects found are fixed by 'fix:' commits in /repo or listed in known_findings.jsonl; see DESIGN.md."}
json.dump(m, open('/verif/MANIFEST.json', 'w'), indent=1)
print("claimed:", sorted(CHECKS), "n/a:", [x['property_id'] for x in na])
