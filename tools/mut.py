#!/usr/bin/env python3
# usage: mut.py <prop[,prop]> <file-rel-to-repo> <old> <new>   -- apply a textual mutant to /repo, run the checks, revert
import sys, subprocess
props, f, old, new = sys.argv[1].split(','), sys.argv[2], sys.argv[3], sys.argv[4]
if subprocess.run(['git','-C','/repo','status','--porcelain'],capture_output=True,text=True).stdout.strip():
    print("REFUSED: /repo has uncommitted changes (commit them first)"); sys.exit(4)
p = '/repo/' + f
s = open(p).read()
if s.count(old) != 1:
    print("MUT: pattern occurs", s.count(old), "times"); sys.exit(3)
open(p, 'w').write(s.replace(old, new))
try:
    b = subprocess.run(['go', 'build', './...'], cwd='/repo', capture_output=True, text=True, env={**__import__('os').environ, 'GOFLAGS': '-mod=mod', 'GOPROXY': 'off'})
    if b.returncode != 0:
        print("MUT: does not compile:", b.stderr[:300]); sys.exit(3)
    for pr in props:
        r = subprocess.run(['/verif/check', pr, 'quick'], capture_output=True, text=True)
        lines = [l for l in r.stdout.split('\n') if l.startswith('VIOLATION') or l.startswith('  obligation') or l.startswith('ENGINE')]
        print(f"{pr}: exit {r.returncode}", '; '.join(l.strip() for l in lines[:4])[:400])
finally:
    subprocess.run(['git', '-C', '/repo', 'checkout', '--', f])
