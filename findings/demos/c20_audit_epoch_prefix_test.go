package tests

// Witness of the open C20 finding F_C20_audit_epoch_prefix: place in /repo/tests and run
//   go test -mod=mod -vet=off -count=1 -run TestVerifAuditEpochPrefix .
// It FAILS on the current tree (that is the finding): an audit result stored for epoch 514 (id starts with 02 02) is
// listed by listByEpoch(2) (search prefix 02) because the epoch field of the id has variable length.

import (
	"encoding/binary"
	"path"
	"testing"

	"github.com/nspcc-dev/neo-go/pkg/neotest"
	"github.com/nspcc-dev/neo-go/pkg/vm"
	"github.com/nspcc-dev/neo-go/pkg/vm/stackitem"
	"github.com/stretchr/testify/require"
)

func verifAuditRawResult(epoch uint64, cid, pub []byte) []byte {
	res := []byte{0x0a, 0x04, 0x08, 0x02, 0x10, 0x0d} // version
	res = append(res, 0x11)                           // epoch prefix (fixed64)
	res = binary.LittleEndian.AppendUint64(res, epoch)
	res = append(res, 0x1a, byte(2+len(cid)), 0x0a, byte(len(cid))) // container ID structure
	res = append(res, cid...)
	res = append(res, 0x22, byte(len(pub))) // public key
	res = append(res, pub...)
	return append(res, 0x28, 1)
}

func TestVerifAuditEpochPrefix(t *testing.T) {
	e := newExecutor(t)
	const auditPath = "../contracts/audit"
	ctr := neotest.CompileFile(t, e.CommitteeHash, auditPath, path.Join(auditPath, "config.yml"))
	e.DeployContract(t, ctr, nil)
	c := e.CommitteeInvoker(ctr.Hash)
	irAcc := c.NewAccount(t)
	irPub, ok := vm.ParseSignatureContract(irAcc.Script())
	require.True(t, ok)
	setAlphabetRole(t, e, irPub)

	c.WithSigners(irAcc).Invoke(t, stackitem.Null{}, "put", verifAuditRawResult(514, randomBytes(32), irPub))

	s, err := c.TestInvoke(t, "listByEpoch", int64(2))
	require.NoError(t, err)
	require.Equal(t, stackitem.Null{}, s.Pop().Item(), "listByEpoch(2) returns the id of a result that was put for epoch 514")
}
