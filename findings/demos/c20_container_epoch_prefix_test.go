package tests

// Witness of the open C20 finding F_C20_container_epoch_prefix: place in /repo/tests and run
//   go test -mod=mod -vet=off -count=1 -run TestVerifContainerEpochPrefix .
// It FAILS on the current tree (that is the finding): an estimation stored for epoch 514 (encoded 02 02) is returned
// by iterateAllContainerSizes(2) (search prefix cnr 02) because the epoch field of the key has variable length.

import (
	"testing"

	"github.com/nspcc-dev/neo-go/pkg/core/interop/storage"
	"github.com/nspcc-dev/neo-go/pkg/neotest"
	"github.com/nspcc-dev/neo-go/pkg/vm/stackitem"
	"github.com/stretchr/testify/require"
)

func TestVerifContainerEpochPrefix(t *testing.T) {
	c, cBal, cNm := newContainerInvoker(t, false)
	_, cnt := addContainer(t, c, cBal)
	node := newStorageNode(t, c)
	cAcc := new(neotest.ContractInvoker)
	*cAcc = *cNm
	cAcc.Signers = append(cAcc.Signers, node.signer)
	cAcc.Invoke(t, stackitem.Null{}, "addPeer", node.raw)
	cNm.Invoke(t, stackitem.Null{}, "newEpoch", int64(1))
	cNm.Invoke(t, stackitem.Null{}, "newEpoch", int64(2))

	c.WithSigners(node.signer).Invoke(t, stackitem.Null{}, "putContainerSize", int64(514), cnt.id[:], int64(111), node.pub)

	s, err := c.TestInvoke(t, "iterateAllContainerSizes", int64(2))
	require.NoError(t, err)
	iter := s.Pop().Value().(*storage.Iterator)
	require.Empty(t, iteratorToArray(iter), "iterateAllContainerSizes(2) returns an estimation that was put for epoch 514")
}
