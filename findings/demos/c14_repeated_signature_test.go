package tests

// Demonstration for the C14 defect of container.VerifyPlacementSignatures: place in /repo/tests and run
//   go test -mod=mod -vet=off -count=1 -run TestVerifC14RepeatedSignature .
// Fails before the fix (the loop counted valid SIGNATURES, so one member's signature repeated REP times, or two
// signatures of one member, satisfied REP) and passes after it (distinct member keys are counted).

import (
	"crypto/elliptic"
	"crypto/rand"
	"crypto/sha256"
	"math/big"
	"testing"

	"github.com/nspcc-dev/neo-go/pkg/crypto/hash"
	"github.com/nspcc-dev/neo-go/pkg/crypto/keys"
	"github.com/nspcc-dev/neo-go/pkg/vm/stackitem"
	"github.com/stretchr/testify/require"
)

func TestVerifC14RepeatedSignature(t *testing.T) {
	c, _, _ := newContainerInvoker(t, false)
	newKey := func() *keys.PrivateKey {
		k, err := keys.NewPrivateKey()
		require.NoError(t, err)
		return k
	}
	a, b, d := newKey(), newKey(), newKey()
	cID := make([]byte, sha256.Size)
	_, err := rand.Read(cID)
	require.NoError(t, err)
	msg := make([]byte, 128)
	_, err = rand.Read(msg)
	require.NoError(t, err)

	c.Invoke(t, stackitem.Null{}, "addNextEpochNodes", cID, 0, []any{a.PublicKey().Bytes(), b.PublicKey().Bytes()})
	c.Invoke(t, stackitem.Null{}, "addNextEpochNodes", cID, 1, []any{d.PublicKey().Bytes()})
	c.Invoke(t, stackitem.Null{}, "commitContainerListUpdate", cID, []uint8{2, 1})

	verify := func(exp bool, sigs ...[]any) {
		arg := make([]any, len(sigs))
		for i := range sigs {
			arg[i] = sigs[i]
		}
		stack, err := c.TestInvoke(t, "verifyPlacementSignatures", cID, msg, arg)
		require.NoError(t, err)
		stackWithBool(t, stack, exp)
	}
	sa := a.Sign(msg)
	verify(true, []any{sa, b.Sign(msg)}, []any{d.Sign(msg)})
	verify(true, []any{sa, sa, b.Sign(msg)}, []any{d.Sign(msg)}) // a repeated signature does no harm either
	// REP 2 for vector 0, but only member a signed: the same signature twice ...
	verify(false, []any{sa, sa}, []any{d.Sign(msg)})
	// ... or two different signatures of the same member (ECDSA is malleable: (r, n-s) verifies as well)
	n := elliptic.P256().Params().N
	sm := make([]byte, 64)
	copy(sm, sa[:32])
	new(big.Int).Sub(n, new(big.Int).SetBytes(sa[32:])).FillBytes(sm[32:])
	require.True(t, a.PublicKey().Verify(sm, hash.Sha256(msg).BytesBE()))
	verify(false, []any{sa, sm}, []any{d.Sign(msg)})
}
