package tests

// Witness of the open C20 finding F_C20_reputation_epoch_prefix: place in /repo/tests and run
//   go test -mod=mod -vet=off -count=1 -run TestVerifEpochPrefix .
// It FAILS on the current tree (that is the finding): an id stored under epoch 514 (encoded 02 02) is listed for
// epoch 2 (encoded 02) because the epoch field of the key has variable length.

import (
	"testing"

	"github.com/nspcc-dev/neo-go/pkg/vm/stackitem"
	"github.com/stretchr/testify/require"
)

func TestVerifEpochPrefix(t *testing.T) {
	e := newReputationInvoker(t)
	peer := make([]byte, 33)
	peer[0] = 7
	e.Invoke(t, stackitem.Null{}, "put", int64(514), peer, []byte{1})
	s, err := e.TestInvoke(t, "listByEpoch", int64(2))
	require.NoError(t, err)
	arr, _ := s.Pop().Value().([]stackitem.Item)
	require.Empty(t, arr, "listByEpoch(2) returns an id that was put under epoch 514")
}
