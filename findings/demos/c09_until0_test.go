package tests

// Witness of the open C09 finding F_C09_until0: place in /repo/tests and run
//   go test -mod=mod -vet=off -count=1 -run TestVerifLockUntilZero .
// It FAILS on the current tree (that is the finding): funds locked with until == 0 are never returned by any tick.

import (
	"testing"

	"github.com/nspcc-dev/neo-go/pkg/util"
	"github.com/nspcc-dev/neo-go/pkg/vm/stackitem"
	"github.com/stretchr/testify/require"
)

func TestVerifLockUntilZero(t *testing.T) {
	e := newExecutor(t)
	deployDefaultNNS(t, e)
	deployNetmapContract(t, e)
	bHash := deployBalanceContract(t, e, util.Uint160{}, util.Uint160{})
	c := e.CommitteeInvoker(bHash)
	user := c.NewAccount(t)
	lock := c.NewAccount(t)
	bal := func(acc util.Uint160) int64 {
		stack, err := c.TestInvoke(t, "balanceOf", acc)
		require.NoError(t, err)
		return stack.Pop().BigInt().Int64()
	}
	c.Invoke(t, stackitem.Null{}, "mint", user.ScriptHash(), 100, []byte("x"))
	c.Invoke(t, stackitem.Null{}, "lock", []byte("tx"), user.ScriptHash(), lock.ScriptHash(), 40, 0)
	require.Equal(t, int64(60), bal(user.ScriptHash()))
	for epoch := 1; epoch <= 3; epoch++ {
		c.Invoke(t, stackitem.Null{}, "newEpoch", epoch)
	}
	require.Equal(t, int64(100), bal(user.ScriptHash()), "funds locked until epoch 0 were not returned by ticks 1..3")
}
