package deploy

// Regression test for the order of signatures in the committee multi-signature
// witness of the transaction designating the Notary role to the committee
// (deploy/notary.go, func initDesignateNotaryRoleAsLeaderTick).
//
// Needs the harness from notary_leader_index_test.go (same package, identifiers
// prefixed f1) and the fix of the leader's loop index from that finding: without
// it the leader never reads the signature of the last committee member.

import (
	"context"
	"fmt"
	"os"
	"slices"
	"strconv"
	"strings"
	"testing"
	"time"
)

const (
	// the leader re-sends the very same transaction on every block until the data
	// shared via the NNS expires, which takes 120 blocks since its generation
	// (defaultValidUntilBlockIncrement in notary.go). The signers need several
	// blocks to publish their signatures, so the rejected transaction is re-sent
	// for 110+ blocks. An accepted transaction is persisted in the next block and
	// the role is in force one block later.
	f2MaxBlocksFromFirstSendToDesignation = 60

	f2MsgSending    = "sending the transaction designating Notary role to the committee..."
	f2MsgSendFailed = "failed to send transaction designating Notary role to the committee, will try again later"
	f2MsgSent       = "transaction designating Notary role to the committee has been successfully sent, will wait for the outcome"
	f2MsgValidSig   = "received valid signature of the transaction designating Notary role to the committee submitted by committee member"
	f2MsgGenerating = "generating shared data for the transaction designating Notary role to the committee..."
	f2MsgExpired    = "previously used shared data of the transaction expired, need a reset"
)

// TestVerifNotarySignatureOrder checks that the leading committee member
// (index 0) puts signatures collected from the other members into the invocation
// script of the committee multi-signature witness in the order of the
// committee's public keys, as CHECKMULTISIG requires. The order matters as soon
// as the leader needs 2+ remote signatures, i.e. for committees of 4 and more
// members (n=4: M=3, 2 remote signatures; n=7: M=4, 3 remote signatures).
//
// All the committee members run Deploy concurrently. In scenarios n4 and n7
// they are started simultaneously. In scenarios n4_last_member_first and
// n7_last_member_first the leader and the LAST member (n-1) are started first
// and the others join as soon as the leader has received the signature of the
// last member: the leader never drops a valid signature (until the shared data
// expires), so the signature of the member with the greatest index is
// guaranteed to be stored first and one of the members 1..n-2 after it. This is
// what happens when the last member is just faster than the others, made
// reproducible. Per iteration it is required that
//  1. the P2PNotary role gets designated to exactly the committee;
//  2. this happens in less than f2MaxBlocksFromFirstSendToDesignation blocks
//     after the first attempt of the leader to send the designation
//     transaction, i.e. w/o passing through the expiration of the shared data
//     (the wait for GAS from per-block committee rewards precedes the first
//     attempt and takes 200+ blocks, so the height is not counted from the start);
//  3. the leader never gets its designation transaction rejected by the chain
//     because of a signature.
//
// Wrong order used to be a matter of Go map iteration order, so the scenarios
// are repeated: F2_ITERATIONS_N4 (default 16) and F2_ITERATIONS_N7 (default 8)
// times with the simultaneous start, F2_ITERATIONS_LAST_FIRST (default 4) times
// with the last member started first; up to F2_PARALLEL (default 4) iterations
// at once on independent in-process chains. (With a map of up to 8 elements
// go1.23 iterates in the insertion order starting from a random position 0..7:
// the signatures inserted in ascending order come out wrong in 1/8 (two) or 2/8
// (three) of cases, inserted in any other order - in 7/8 or more.)
func TestVerifNotarySignatureOrder(t *testing.T) {
	parallel := f2EnvInt(t, "F2_PARALLEL", 4)

	for _, tc := range []struct {
		name          string
		n             int
		lastFirst     bool
		iterationsEnv string
		iterations    int
	}{
		{name: "n4", n: 4, iterationsEnv: "F2_ITERATIONS_N4", iterations: 16},
		{name: "n7", n: 7, iterationsEnv: "F2_ITERATIONS_N7", iterations: 8},
		{name: "n4_last_member_first", n: 4, lastFirst: true, iterationsEnv: "F2_ITERATIONS_LAST_FIRST", iterations: 4},
		{name: "n7_last_member_first", n: 7, lastFirst: true, iterationsEnv: "F2_ITERATIONS_LAST_FIRST", iterations: 4},
	} {
		t.Run(tc.name, func(t *testing.T) {
			iterations := f2EnvInt(t, tc.iterationsEnv, tc.iterations)
			results := make([]f2Result, iterations)
			sem := make(chan struct{}, parallel)

			// returns when all the parallel iterations are finished
			t.Run("iterations", func(t *testing.T) {
				for iter := 0; iter < iterations; iter++ {
					t.Run(fmt.Sprintf("%02d", iter), func(t *testing.T) {
						t.Parallel()
						sem <- struct{}{}
						defer func() { <-sem }()
						results[iter] = f2Iteration(t, tc.n, tc.lastFirst)
					})
				}
			})

			var rejected, late, notDesignated int
			for _, r := range results {
				if r.rejectedSends > 0 {
					rejected++
				}
				if !r.designated {
					notDesignated++
				} else if r.blocksFromFirstSend() >= f2MaxBlocksFromFirstSendToDesignation {
					late++
				}
			}

			t.Logf("%s SUMMARY: %d iterations; designation transaction rejected because of a signature in %d of them; "+
				"role designated %d+ blocks after the first send attempt in %d; role not designated at all in %d",
				tc.name, iterations, rejected, f2MaxBlocksFromFirstSendToDesignation, late, notDesignated)
		})
	}
}

type f2Result struct {
	designated bool
	// chain heights: when the harness first saw the leader trying to send the
	// designation transaction and when it first saw the role designated
	firstSendHeight, designatedHeight uint32
	sawFirstSend                      bool

	sendAttempts, sentOK, failedSends, rejectedSends, expirations int
	firstSendErr                                                  string
	// committee indexes of the members whose signatures were accepted by the
	// leader, in order of reception, per each generation of the shared data
	sigMembers [][]string
	// height at which members 1..n-2 were started (lastFirst only)
	restStartedHeight uint32
}

func (r f2Result) blocksFromFirstSend() uint32 {
	if !r.sawFirstSend || r.designatedHeight < r.firstSendHeight {
		return 0
	}
	return r.designatedHeight - r.firstSendHeight
}

func f2Iteration(t *testing.T, n int, lastFirst bool) f2Result {
	var res f2Result

	c := f1NewChain(t, n, 50*time.Millisecond)

	stopBlocks := c.startBlocks()
	defer stopBlocks()

	ctx, cancel := context.WithCancel(context.Background())
	defer cancel()

	first := make([]int, n)
	for i := range first {
		first[i] = i
	}
	var rest []int
	if lastFirst {
		first, rest = []int{0, n - 1}, first[1:n-1]
	}

	started := time.Now()
	runs := []*f1Run{c.startMembers(ctx, first...)}
	leaderLog := c.logs[0]

	deadline := time.After(f1Timeout)
	ticker := time.NewTicker(c.blockInterval / 2)
	defer ticker.Stop()
loop:
	for {
		select {
		case <-runs[0].done:
			break loop
		case <-deadline:
			break loop
		case <-ticker.C:
			if len(rest) > 0 && leaderLog.FilterMessage(f2MsgValidSig).Len() > 0 {
				res.restStartedHeight = c.bc.BlockHeight()
				runs = append(runs, c.startMembers(ctx, rest...))
				rest = nil
			}
			if !res.sawFirstSend && leaderLog.FilterMessage(f2MsgSending).Len() > 0 {
				res.sawFirstSend = true
				res.firstSendHeight = c.bc.BlockHeight()
			}
			if c.notaryRoleDesignatedToCommittee() {
				res.designated = true
				res.designatedHeight = c.bc.BlockHeight()
				break loop
			}
		}
	}
	elapsed := time.Since(started).Round(time.Millisecond)
	height := c.bc.BlockHeight()

	cancel()
	for _, run := range runs {
		run.wait(t)
	}

	for _, e := range leaderLog.All() {
		switch e.Message {
		case f2MsgGenerating:
			// the leader drops all the signatures here (the message is repeated
			// while the leader lacks GAS to share the data)
			if ln := len(res.sigMembers); ln == 0 || len(res.sigMembers[ln-1]) > 0 {
				res.sigMembers = append(res.sigMembers, nil)
			}
		case f2MsgValidSig:
			domain, _ := e.ContextMap()["domain"].(string)
			member := strings.TrimSuffix(strings.TrimPrefix(domain, "designate-committee-notary-"), ".bootstrap")
			if len(res.sigMembers) == 0 {
				res.sigMembers = append(res.sigMembers, nil)
			}
			// the leader re-reads signatures it already holds until there are enough of them
			if round := &res.sigMembers[len(res.sigMembers)-1]; !slices.Contains(*round, member) {
				*round = append(*round, member)
			}
		}
	}

	res.sigMembers = slices.DeleteFunc(res.sigMembers, func(round []string) bool { return len(round) == 0 })

	res.sendAttempts = leaderLog.FilterMessage(f2MsgSending).Len()
	res.sentOK = leaderLog.FilterMessage(f2MsgSent).Len()
	res.expirations = leaderLog.FilterMessage(f2MsgExpired).Len()
	for _, e := range leaderLog.FilterMessage(f2MsgSendFailed).All() {
		res.failedSends++
		strErr, _ := e.ContextMap()["error"].(string)
		if res.firstSendErr == "" {
			res.firstSendErr = strErr
		}
		if strings.Contains(strings.ToLower(strErr), "signature") {
			res.rejectedSends++
		}
	}

	strStart := "all members started at once"
	if lastFirst {
		strStart = fmt.Sprintf("members 0 and %d started first, the others at height %d", n-1, res.restStartedHeight)
	}

	t.Logf("n=%d, %s: designated=%t after %s (height %d); leader's first send attempt seen at height %d, role seen designated at height %d (%d blocks); "+
		"leader: signatures accepted from members %v (in order of reception, per generation of the shared data), "+
		"send attempts=%d, sent OK=%d, failed sends=%d (because of a signature: %d), shared data expired=%d; 1st send error: %q",
		n, strStart, res.designated, elapsed, height, res.firstSendHeight, res.designatedHeight, res.blocksFromFirstSend(),
		res.sigMembers, res.sendAttempts, res.sentOK, res.failedSends, res.rejectedSends, res.expirations, res.firstSendErr)

	if !res.designated {
		t.Errorf("Notary role has not been designated to the committee in %s\n%s", f1Timeout, c.describeNotaryBootstrap())
		return res
	}

	if len(rest) > 0 {
		t.Errorf("members 1..%d have not been started: the leader has not received the signature of member %d", n-2, n-1)
	}

	if !res.sawFirstSend {
		t.Errorf("Notary role is designated but the leader has not been seen sending the transaction")
	}

	if d := res.blocksFromFirstSend(); d >= f2MaxBlocksFromFirstSendToDesignation {
		t.Errorf("Notary role has been designated %d blocks after the first attempt of the leader to send the transaction, expected less than %d",
			d, f2MaxBlocksFromFirstSendToDesignation)
	}

	if res.rejectedSends > 0 {
		t.Errorf("designation transaction composed by the leader has been rejected because of a signature %d times (shared data expired %d times), first error: %s",
			res.rejectedSends, res.expirations, res.firstSendErr)
	}

	return res
}

func f2EnvInt(t *testing.T, name string, def int) int {
	s := os.Getenv(name)
	if s == "" {
		return def
	}
	v, err := strconv.Atoi(s)
	if err != nil || v <= 0 {
		t.Fatalf("invalid %s=%q", name, s)
	}
	return v
}
