package tests

// Witness of the open finding F_C18_ipv6_single_group_at_end: place in /repo/tests and run
//   go test -mod=mod -vet=off -count=1 -run TestVerifC18IPv6SingleGroupAtEnd .
// The test FAILS on the current code: RFC 4291 lets "::" stand for one or more zero groups, the contract accepts a
// single compressed group in the middle of an address but rejects it at the end (nine colon-separated fragments).

import (
	"testing"

	"github.com/nspcc-dev/neo-go/pkg/vm/stackitem"
	"github.com/nspcc-dev/neofs-contract/contracts/nns/recordtype"
)

func TestVerifC18IPv6SingleGroupAtEnd(t *testing.T) {
	c := newNNSInvoker(t, true)
	c.Invoke(t, true, "register", "testdomain.com", c.CommitteeHash, "myemail@nspcc.ru", int64(101), int64(102), int64(103), int64(104))
	// one zero group compressed in the middle: accepted
	c.Invoke(t, stackitem.Null{}, "addRecord", "testdomain.com", int64(recordtype.AAAA), "2001:2:3::5:6:7:8")
	// the same at the end (2001:2:3:4:5:6:7:0): rejected with "invalid record data"
	c.Invoke(t, stackitem.Null{}, "addRecord", "testdomain.com", int64(recordtype.AAAA), "2001:2:3:4:5:6:7::")
}
