package tests

import (
	"testing"

	"github.com/nspcc-dev/neo-go/pkg/vm/stackitem"
)

// C08 "any accepted count leaves the contract able to tick again": before commit 7b36e25 updateSnapshotCount(300) was
// accepted whenever no stored snapshot had to be moved (ring position = old count - 1, e.g. after 9 ticks with the
// default count 10), and newEpoch then faulted for good ("SETITEM: invalid value": byte(256)) once the ring position
// reached 256; neither a later tick nor any later updateSnapshotCount could succeed. With the fix the count is refused.
// Place into tests/ of the repository to run: passes on the fixed tree, fails (tick 256 faults) on the parent of 7b36e25
// if the InvokeFail line is replaced by the commented Invoke.
func TestFindingC08SnapshotCountAbove255(t *testing.T) {
	cNm := newNetmapInvoker(t)
	for e := 1; e <= 9; e++ {
		cNm.Invoke(t, stackitem.Null{}, "newEpoch", e)
	}
	cNm.InvokeFail(t, "count must not exceed 255", "updateSnapshotCount", 300)
	// cNm.Invoke(t, stackitem.Null{}, "updateSnapshotCount", 300) // accepted before the fix
	for e := 10; e < 300; e++ {
		cNm.Invoke(t, stackitem.Null{}, "newEpoch", e) // before the fix: FAULT at the 256th ring position, for good
	}
	cNm.Invoke(t, stackitem.Null{}, "updateSnapshotCount", 255)
	cNm.Invoke(t, stackitem.Null{}, "newEpoch", 300)
}
