package tests

// Demonstrations for the C18 defects of the NNS record-data validators: place in /repo/tests and run
//   go test -mod=mod -vet=off -count=1 -run TestVerifC18 .
// TestVerifC18IPv4Sign fails before the fix of checkIPv4 (a signed fragment such as "+8" passed std.Atoi10 and the
// leading-zero test, so the non-canonical "+8.8.8.8" was stored as an A record) and passes after it.
// TestVerifC18IPv6HighGroup fails before the fix of checkIPv6 (std.Atoi(f, 16) reads a group whose first hex digit is
// 8..f as a negative number, so the global unicast address 2001:8d8::1 was rejected by `f1 < 0x200`) and passes after it.

import (
	"testing"

	"github.com/nspcc-dev/neo-go/pkg/vm/stackitem"
	"github.com/nspcc-dev/neofs-contract/contracts/nns/recordtype"
)

func verifC18Domain(t *testing.T) func(typ recordtype.Type, data string, accept bool) {
	c := newNNSInvoker(t, true)
	c.Invoke(t, true, "register", "testdomain.com", c.CommitteeHash, "myemail@nspcc.ru", int64(101), int64(102), int64(103), int64(104))
	return func(typ recordtype.Type, data string, accept bool) {
		if accept {
			c.Invoke(t, stackitem.Null{}, "addRecord", "testdomain.com", int64(typ), data)
		} else {
			c.InvokeFail(t, "invalid record data", "addRecord", "testdomain.com", int64(typ), data)
		}
	}
}

func TestVerifC18IPv4Sign(t *testing.T) {
	add := verifC18Domain(t)
	add(recordtype.A, "8.8.8.8", true)
	add(recordtype.A, "+8.8.8.8", false)
	add(recordtype.A, "8.+8.8.8", false)
	add(recordtype.A, "+08.8.8.8", false)
	add(recordtype.A, "8.8.8.+8", false)
}

func TestVerifC18IPv6HighGroup(t *testing.T) {
	add := verifC18Domain(t)
	add(recordtype.AAAA, "2001:4860:4860::8888", true) // 0x8888 in a group the range test does not read
	add(recordtype.AAAA, "2001:8d8::1", true)          // 2001:8d8::/32 is ordinary global unicast space
	add(recordtype.AAAA, "2001:b000:1::1", true)
	add(recordtype.AAAA, "2001:db8::1", false) // documentation prefix
	add(recordtype.AAAA, "2001:1ff::1", false) // below 2001:200::
}
