package tests

// Demonstration for the C17/C03 defect of neofs.SetConfig (notary disabled): place in /repo/tests and run
//   go test -mod=mod -vet=off -count=1 -run TestVerifSetConfigStranger .
// Fails before the fix (a stranger's invocation counts as a vote and, with a one-key Alphabet, changes the
// configuration at once), passes after it.

import (
	"path"
	"testing"

	"github.com/nspcc-dev/neo-go/pkg/neotest"
	"github.com/nspcc-dev/neo-go/pkg/util"
	"github.com/nspcc-dev/neo-go/pkg/wallet"
	"github.com/stretchr/testify/require"
)

func TestVerifSetConfigStranger(t *testing.T) {
	e := newExecutor(t)
	acc, err := wallet.NewAccount()
	require.NoError(t, err)
	args := make([]any, 5)
	args[0] = true // notary disabled: decisions are collected by votes
	args[1] = util.Uint160{}
	args[2] = []any{acc.PublicKey().Bytes()}
	args[3] = []any{}
	c := neotest.CompileFile(t, e.CommitteeHash, neofsPath, path.Join(neofsPath, "config.yml"))
	e.DeployContract(t, c, args)
	inv := e.CommitteeInvoker(c.Hash)
	stranger := inv.NewAccount(t)
	s := inv.WithSigners(stranger)
	tx := s.PrepareInvoke(t, "setConfig", []byte("id1"), []byte("SomeKey"), []byte("evil"))
	s.AddNewBlock(t, tx)
	stack, err := inv.TestInvoke(t, "config", []byte("SomeKey"))
	require.NoError(t, err)
	require.Nil(t, stack.Pop().Value(), "a stranger changed the NeoFS configuration")
}
