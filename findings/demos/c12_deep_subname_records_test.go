package tests

import (
	"testing"

	"github.com/nspcc-dev/neo-go/pkg/vm/stackitem"
	"github.com/nspcc-dev/neofs-contract/contracts/nns/recordtype"
)

// C12 (fixed): records of a name two labels below the registered name are stored by addRecord and returned by
// resolve; getRecords and getAllRecords failed with "parent domain has expired" before the fix.
func TestFindingC12DeepSubnameRecords(t *testing.T) {
	c := newNNSInvoker(t, true)
	refresh, retry, expire, ttl := int64(101), int64(102), int64(103), int64(104)
	c.Invoke(t, true, "register", "testdomain.com", c.CommitteeHash, "myemail@nspcc.ru", refresh, retry, expire, ttl)
	c.Invoke(t, stackitem.Null{}, "addRecord", "x.testdomain.com", int64(recordtype.TXT), "one below")
	c.Invoke(t, stackitem.Null{}, "addRecord", "x.a.testdomain.com", int64(recordtype.TXT), "two below")
	c.Invoke(t, stackitem.NewArray([]stackitem.Item{stackitem.Make("one below")}), "getRecords", "x.testdomain.com", int64(recordtype.TXT))
	c.Invoke(t, stackitem.NewArray([]stackitem.Item{stackitem.Make("two below")}), "resolve", "x.a.testdomain.com", int64(recordtype.TXT))
	c.Invoke(t, stackitem.NewArray([]stackitem.Item{stackitem.Make("two below")}), "getRecords", "x.a.testdomain.com", int64(recordtype.TXT))
	_, err := c.TestInvoke(t, "getAllRecords", "x.a.testdomain.com")
	if err != nil {
		t.Fatalf("getAllRecords of a deep sub-name: %v", err)
	}
}
