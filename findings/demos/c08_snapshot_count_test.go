package tests

// Demonstrations for the two C08 defects of netmap.UpdateSnapshotCount: place in /repo/tests and run
//   go test -mod=mod -vet=off -count=1 -run 'TestVerifSnapshotCount' .
// Both fail on the tree before the fixes and pass after them.

import (
	"testing"

	"github.com/nspcc-dev/neo-go/pkg/core/interop/storage"
	"github.com/nspcc-dev/neo-go/pkg/neotest"
	"github.com/nspcc-dev/neo-go/pkg/vm/stackitem"
	"github.com/nspcc-dev/neofs-contract/contracts/netmap/nodestate"
	"github.com/stretchr/testify/require"
)

// count 0 was accepted although the next tick then divides by zero: the contract can never tick again.
func TestVerifSnapshotCountZero(t *testing.T) {
	c := newNetmapInvoker(t)
	c.Invoke(t, stackitem.Null{}, "newEpoch", 1)
	tx := c.PrepareInvoke(t, "updateSnapshotCount", 0)
	c.AddNewBlock(t, tx)
	aer := c.Executor.GetTxExecResult(t, tx.Hash())
	if aer.VMState.HasFlag(1) { // HALT: count 0 accepted; the contract must still be able to tick
		c.Invoke(t, stackitem.Null{}, "newEpoch", 2)
	}
}

// shrinking the history to K maps left the structured node list of epoch C-K in storage for ever.
func TestVerifSnapshotCountLeak(t *testing.T) {
	c := newNetmapInvoker(t)
	acc := c.NewAccount(t)
	pKey := (acc.(neotest.SingleSigner)).Account().PrivateKey().PublicKey()
	nodeStruct := stackitem.NewStruct([]stackitem.Item{
		stackitem.NewArray([]stackitem.Item{stackitem.Make("grpcs://192.0.2.100:8090")}),
		stackitem.NewMapWithValue([]stackitem.MapElement{{Key: stackitem.Make("key"), Value: stackitem.Make("value")}}),
		stackitem.NewByteArray(pKey.Bytes()),
		stackitem.Make(nodestate.Online),
	})
	cAcc := new(neotest.ContractInvoker)
	*cAcc = *c
	cAcc.Signers = append(cAcc.Signers, acc)
	cAcc.Invoke(t, stackitem.Null{}, "addNode", nodeStruct)
	for e := 1; e <= 8; e++ {
		c.Invoke(t, stackitem.Null{}, "newEpoch", e)
	}
	// history of 10 -> 3: epochs 6, 7, 8 stay, everything up to epoch 5 must be gone
	c.Invoke(t, stackitem.Null{}, "updateSnapshotCount", 3)
	for e := 0; e <= 5; e++ {
		s, err := c.TestInvoke(t, "listNodes", e)
		require.NoError(t, err)
		iter, ok := s.Top().Value().(*storage.Iterator)
		require.True(t, ok)
		require.False(t, iter.Next(), "node list of epoch %d is still stored after shrinking the history to 3", e)
	}
}
