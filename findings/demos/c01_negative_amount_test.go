package tests

// Demonstration for the C01/C02 defect (negative amount): place in /repo/tests and run
//   go test -mod=mod -vet=off -count=1 -run TestVerifNegativeAmount .
// Fails on the tree before the fix (balances 120/-20 are reached), passes after it.

import (
	"testing"

	"github.com/nspcc-dev/neo-go/pkg/util"
	"github.com/nspcc-dev/neo-go/pkg/vm/stackitem"
	"github.com/stretchr/testify/require"
)

func TestVerifNegativeAmount(t *testing.T) {
	e := newExecutor(t)
	deployDefaultNNS(t, e)
	deployNetmapContract(t, e)
	bHash := deployBalanceContract(t, e, util.Uint160{}, util.Uint160{})
	c := e.CommitteeInvoker(bHash)
	a := c.NewAccount(t)
	b := c.NewAccount(t)
	bal := func(acc util.Uint160) int64 {
		stack, err := c.TestInvoke(t, "balanceOf", acc)
		require.NoError(t, err)
		return stack.Pop().BigInt().Int64()
	}
	c.Invoke(t, stackitem.Null{}, "mint", a.ScriptHash(), 100, []byte("x"))
	// a holder moves funds from somebody else to themselves with a negative amount
	ca := c.WithSigners(a)
	tx := ca.PrepareInvoke(t, "transfer", a.ScriptHash(), b.ScriptHash(), -20, nil)
	ca.AddNewBlock(t, tx)
	require.GreaterOrEqual(t, bal(b.ScriptHash()), int64(0), "balance of b went negative")
	require.Equal(t, int64(100), bal(a.ScriptHash()), "balance of a changed by a negative transfer")
}
