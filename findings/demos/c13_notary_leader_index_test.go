package deploy

import (
	"context"
	"crypto/sha256"
	"encoding/hex"
	"errors"
	"fmt"
	"os"
	"path/filepath"
	"slices"
	"strings"
	"sync"
	"testing"
	"time"

	"github.com/nspcc-dev/neo-go/pkg/config"
	"github.com/nspcc-dev/neo-go/pkg/config/netmode"
	"github.com/nspcc-dev/neo-go/pkg/core"
	"github.com/nspcc-dev/neo-go/pkg/core/block"
	"github.com/nspcc-dev/neo-go/pkg/core/native/noderoles"
	"github.com/nspcc-dev/neo-go/pkg/core/storage"
	"github.com/nspcc-dev/neo-go/pkg/core/transaction"
	"github.com/nspcc-dev/neo-go/pkg/crypto/keys"
	"github.com/nspcc-dev/neo-go/pkg/encoding/fixedn"
	"github.com/nspcc-dev/neo-go/pkg/neorpc/result"
	"github.com/nspcc-dev/neo-go/pkg/neotest"
	"github.com/nspcc-dev/neo-go/pkg/network"
	"github.com/nspcc-dev/neo-go/pkg/rpcclient"
	"github.com/nspcc-dev/neo-go/pkg/rpcclient/invoker"
	notarysvc "github.com/nspcc-dev/neo-go/pkg/services/notary"
	"github.com/nspcc-dev/neo-go/pkg/services/rpcsrv"
	"github.com/nspcc-dev/neo-go/pkg/smartcontract"
	"github.com/nspcc-dev/neo-go/pkg/util"
	"github.com/nspcc-dev/neo-go/pkg/wallet"
	"github.com/nspcc-dev/neofs-contract/contracts"
	"github.com/stretchr/testify/require"
	"go.uber.org/zap"
	"go.uber.org/zap/zapcore"
	"go.uber.org/zap/zaptest/observer"
)

// f1Timeout limits the time given to the deployment procedure (or to its
// Notary-bootstrap stage) to converge. Healthy runs need 3-15 seconds with the
// 50ms block interval used below.
const f1Timeout = 90 * time.Second

// log message of Deploy telling that stage 2 ("launch of a notary service for
// the committee", function enableNotary) is over for the local member.
const f1MsgNotaryStageDone = "Notary service successfully enabled for the committee"

// TestVerifNotaryLeaderReadsEveryMember checks that the leading committee
// member (index 0) collects signatures of the transaction designating the Notary
// role to the committee from EVERY other member, i.e. from NNS domains of
// members 1..n-1 (each signer publishes its signature under its own committee
// index).
//
// The leader needs M-1 remote signatures where M is the committee majority.
// Scenarios below are the ones in which the signature of the LAST member (n-1)
// is indispensable:
//   - n=2 (M=2): the only remote member is the last one;
//   - n=3 (M=2) with member 1 absent: members 0 and 2 form a majority that
//     includes the leader, so the Notary role must get designated.
func TestVerifNotaryLeaderReadsEveryMember(t *testing.T) {
	t.Run("n2_all_members", func(t *testing.T) {
		const n = 2
		c := f1NewChain(t, n, 50*time.Millisecond)

		stopBlocks := c.startBlocks()
		defer stopBlocks()

		ctx, cancel := context.WithCancel(context.Background())
		defer cancel()

		started := time.Now()
		run := c.startMembers(ctx, 0, 1)

		select {
		case <-run.done:
		case <-time.After(f1Timeout):
			state := c.describeNotaryBootstrap()
			cancel()
			run.wait(t)
			t.Fatalf("deployment has not converged in %s\n%s", f1Timeout, state)
		}

		for _, member := range run.members {
			require.NoError(t, run.errs[member], "Deploy of member #%d", member)
		}
		t.Logf("all Deploy calls returned nil in %s (height %d)", time.Since(started).Round(time.Millisecond), c.bc.BlockHeight())

		c.checkFinalState(t)
	})

	t.Run("n3_member1_absent", func(t *testing.T) {
		// Deploy as a whole cannot return without member 1: stage 3 (initial GAS
		// distribution) spends from the validator multi-signature account which is
		// 3-of-3 for three validators, and at stage 5 each member deploys its own
		// Alphabet contract. But stage 2 (enableNotary) needs the committee majority
		// only (2-of-3), so the success criterion is the one of enableNotary itself:
		// the Notary role is designated to exactly the committee, and both running
		// members leave the stage.
		const n = 3
		c := f1NewChain(t, n, 50*time.Millisecond)

		stopBlocks := c.startBlocks()
		defer stopBlocks()

		ctx, cancel := context.WithCancel(context.Background())
		defer cancel()

		started := time.Now()
		run := c.startMembers(ctx, 0, 2)

		fail := func(format string, args ...any) {
			state := c.describeNotaryBootstrap()
			cancel()
			run.wait(t)
			t.Fatalf(format+"\n%s", append(args, state)...)
		}

		deadline := time.After(f1Timeout)
		ticker := time.NewTicker(c.blockInterval)
		defer ticker.Stop()

	loop:
		for {
			select {
			case <-run.done:
				// must not happen at all: see above
				fail("Deploy calls returned before the Notary role designation: %v", run.errs)
			case <-deadline:
				fail("Notary role has not been designated to the committee in %s", f1Timeout)
			case <-ticker.C:
				if c.notaryRoleDesignatedToCommittee() {
					break loop
				}
			}
		}
		t.Logf("Notary role designated to the committee in %s (height %d)", time.Since(started).Round(time.Millisecond), c.bc.BlockHeight())

		// both running members must notice this and go ahead
		stageDone := func() bool {
			for _, member := range run.members {
				if c.logs[member].FilterMessage(f1MsgNotaryStageDone).Len() == 0 {
					return false
				}
			}
			return true
		}
		for !stageDone() {
			select {
			case <-run.done:
				fail("Deploy calls returned before leaving the Notary-bootstrap stage: %v", run.errs)
			case <-deadline:
				fail("running members have not left the Notary-bootstrap stage in %s", f1Timeout)
			case <-ticker.C:
			}
		}
		t.Logf("members %v left the Notary-bootstrap stage in %s (height %d)", run.members, time.Since(started).Round(time.Millisecond), c.bc.BlockHeight())

		// nothing more can be done without member 1, stop the runs
		cancel()
		run.wait(t)
		for _, member := range run.members {
			require.ErrorIs(t, run.errs[member], context.Canceled, "Deploy of member #%d", member)
		}
	})
}

// ---------------------------------------------------------------------------
// Test harness: in-process Neo chain (real ledger, real RPC server, real Notary
// service) with manually driven block production. Every committee member talks
// to the chain through its own local RPC client.
// ---------------------------------------------------------------------------

type f1Chain struct {
	t *testing.T

	bc   *core.Blockchain
	exec *neotest.Executor
	rpc  *rpcsrv.Server

	blockInterval time.Duration

	// sorted by public key, same order as Deploy uses
	members []*keys.PrivateKey
	pubs    keys.PublicKeys

	// log entries (Info+) of Deploy per committee member
	logs []*observer.ObservedLogs

	mtx     sync.Mutex
	stopped bool
}

// f1Logger returns no-op logger unless F1_LOG env is set.
func f1Logger(name string) *zap.Logger {
	if os.Getenv("F1_LOG") == "" {
		return zap.NewNop()
	}
	cfg := zap.NewDevelopmentConfig()
	cfg.Level = zap.NewAtomicLevelAt(zapcore.InfoLevel)
	cfg.DisableStacktrace = true
	l, _ := cfg.Build()
	return l.Named(name)
}

func f1NewChain(t *testing.T, n int, blockInterval time.Duration) *f1Chain {
	members := make([]*keys.PrivateKey, n)
	for i := range members {
		seed := sha256.Sum256([]byte(fmt.Sprintf("f1 committee member #%d", i)))
		k, err := keys.NewPrivateKeyFromBytes(seed[:])
		require.NoError(t, err)
		members[i] = k
	}
	slices.SortFunc(members, func(a, b *keys.PrivateKey) int { return a.PublicKey().Cmp(b.PublicKey()) })

	pubs := make(keys.PublicKeys, n)
	strPubs := make([]string, n)
	for i := range members {
		pubs[i] = members[i].PublicKey()
		strPubs[i] = hex.EncodeToString(pubs[i].Bytes())
	}

	cfg := config.Blockchain{
		ProtocolConfiguration: config.ProtocolConfiguration{
			Magic:                       netmode.UnitTestNet,
			MaxTraceableBlocks:          200000,
			TimePerBlock:                blockInterval,
			StandbyCommittee:            strPubs,
			ValidatorsCount:             uint32(n),
			VerifyTransactions:          true,
			P2PSigExtensions:            true,
			MaxValidUntilBlockIncrement: 1000,
		},
	}

	bc, err := core.NewBlockchain(storage.NewMemoryStore(), cfg, f1Logger("chain"))
	require.NoError(t, err)
	go bc.Run()
	// note: neither the chain nor the services/clients built on top of it are
	// shut down explicitly: local RPC client of NeoGo v0.107.0 races with the RPC
	// server on close (double close of the notification channel). Everything is
	// kept in memory and dies with the test process.

	validatorAccs := make([]*wallet.Account, n)
	committeeAccs := make([]*wallet.Account, n)
	for i := range members {
		validatorAccs[i] = wallet.NewAccountFromPrivateKey(members[i])
		require.NoError(t, validatorAccs[i].ConvertMultisig(smartcontract.GetDefaultHonestNodeCount(n), pubs))
		committeeAccs[i] = wallet.NewAccountFromPrivateKey(members[i])
		require.NoError(t, committeeAccs[i].ConvertMultisig(smartcontract.GetMajorityHonestNodeCount(n), pubs))
	}

	exec := neotest.NewExecutor(t, bc, neotest.NewMultiSigner(validatorAccs...), neotest.NewMultiSigner(committeeAccs...))

	// wallet of the Notary service: any designated committee member fits
	const walletPass = "pass"
	walletPath := filepath.Join(t.TempDir(), "notary_wallet.json")
	w, err := wallet.NewWallet(walletPath)
	require.NoError(t, err)
	w.Scrypt = keys.ScryptParams{N: 2, R: 1, P: 1}
	for i := range members {
		acc := wallet.NewAccountFromPrivateKey(members[i])
		require.NoError(t, acc.Encrypt(walletPass, w.Scrypt))
		w.AddAccount(acc)
	}
	require.NoError(t, w.Save())

	notaryCfg := config.P2PNotary{
		Enabled:      true,
		UnlockWallet: config.Wallet{Path: walletPath, Password: walletPass},
	}

	srv, err := network.NewServer(network.ServerConfig{
		Addresses:         []config.AnnounceableAddress{{Address: "127.0.0.1:0"}},
		Net:               cfg.Magic,
		MinPeers:          0,
		MaxPeers:          10,
		AttemptConnPeers:  1,
		DialTimeout:       time.Second,
		ProtoTickInterval: time.Second,
		PingInterval:      30 * time.Second,
		PingTimeout:       90 * time.Second,
		TimePerBlock:      blockInterval,
		P2PNotaryCfg:      notaryCfg,
	}, bc, bc.GetStateSyncModule(), f1Logger("net"))
	require.NoError(t, err)

	ntr, err := notarysvc.NewNotary(notarysvc.Config{
		MainCfg: notaryCfg,
		Chain:   bc,
		Log:     f1Logger("notary"),
	}, cfg.Magic, srv.GetNotaryPool(), func(tx *transaction.Transaction) error {
		return srv.RelayTxn(tx)
	})
	require.NoError(t, err)
	srv.AddService(ntr)
	bc.SetNotary(ntr)

	rpc := rpcsrv.New(bc, config.RPC{
		BasicService:           config.BasicService{Enabled: true},
		MaxGasInvoke:           fixedn.Fixed8FromInt64(500),
		MaxIteratorResultItems: 100,
		MaxFindResultItems:     100,
		MaxNEP11Tokens:         100,
		SessionEnabled:         true,
		SessionExpirationTime:  60,
	}, srv, nil, f1Logger("rpc"), make(chan error, 16))
	srv.AddService(rpc)

	srv.Start()

	return &f1Chain{
		t:             t,
		bc:            bc,
		exec:          exec,
		rpc:           rpc,
		blockInterval: blockInterval,
		members:       members,
		pubs:          pubs,
		logs:          make([]*observer.ObservedLogs, n),
	}
}

// produceBlock makes new block from all the transactions currently pooled.
func (c *f1Chain) produceBlock() {
	c.mtx.Lock()
	defer c.mtx.Unlock()
	if c.stopped {
		return
	}

	txs := c.bc.GetMemPool().GetVerifiedTransactions()
	if max := int(c.bc.GetConfig().MaxTransactionsPerBlock); max > 0 && len(txs) > max {
		txs = txs[:max]
	}

	b := c.exec.NewUnsignedBlock(c.t, txs...)
	c.exec.SignBlock(b)
	if err := c.bc.AddBlock(b); err != nil {
		c.t.Logf("failed to add block #%d with %d txs: %v", b.Index, len(txs), err)
		b = c.exec.NewUnsignedBlock(c.t)
		c.exec.SignBlock(b)
		if err = c.bc.AddBlock(b); err != nil {
			c.t.Errorf("failed to add empty block #%d: %v", b.Index, err)
			c.stopped = true
			return
		}
	}
}

// startBlocks runs block producer with the configured interval. Returned
// function stops it and waits for completion.
func (c *f1Chain) startBlocks() func() {
	ctx, cancel := context.WithCancel(context.Background())
	done := make(chan struct{})
	go func() {
		defer close(done)
		ticker := time.NewTicker(c.blockInterval)
		defer ticker.Stop()
		for {
			select {
			case <-ctx.Done():
				return
			case <-ticker.C:
				c.produceBlock()
			}
		}
	}()
	return func() {
		cancel()
		<-done
	}
}

// f1Blockchain implements Blockchain over local RPC client.
type f1Blockchain struct {
	*rpcclient.Internal
}

func (c *f1Chain) newClient() (*f1Blockchain, error) {
	cli, err := rpcclient.NewInternal(context.Background(), c.rpc.RegisterLocal)
	if err != nil {
		return nil, err
	}
	if err = cli.Init(); err != nil {
		return nil, err
	}
	return &f1Blockchain{Internal: cli}, nil
}

func (x *f1Blockchain) SubscribeToNewBlocks() (<-chan *block.Block, error) {
	ch := make(chan *block.Block, 100000)
	_, err := x.ReceiveBlocks(nil, ch)
	return ch, err
}

func (x *f1Blockchain) SubscribeToNotaryRequests() (<-chan *result.NotaryRequestEvent, error) {
	ch := make(chan *result.NotaryRequestEvent, 100000)
	_, err := x.ReceiveNotaryRequests(nil, ch)
	return ch, err
}

type f1Glagolitsa struct{}

func (f1Glagolitsa) Size() int                    { return 41 }
func (f1Glagolitsa) LetterByIndex(ind int) string { return fmt.Sprintf("letter%d", ind) }

func (c *f1Chain) deployPrm(b Blockchain, member int) (Prm, error) {
	var prm Prm

	cs, err := contracts.GetFS()
	if err != nil {
		return prm, err
	}
	if len(cs) != 9 {
		return prm, fmt.Errorf("unexpected number of FS chain contracts %d", len(cs))
	}

	common := func(i int) CommonDeployPrm {
		return CommonDeployPrm{NEF: cs[i].NEF, Manifest: cs[i].Manifest}
	}

	validatorAcc := wallet.NewAccountFromPrivateKey(c.members[member])
	err = validatorAcc.ConvertMultisig(smartcontract.GetDefaultHonestNodeCount(len(c.members)), c.pubs)
	if err != nil {
		return prm, err
	}

	// Deploy's log is always observed (tests look for some messages) and
	// optionally printed
	obsCore, obsLogs := observer.New(zapcore.InfoLevel)
	c.logs[member] = obsLogs
	name := fmt.Sprintf("member%d", member)
	prm.Logger = zap.New(zapcore.NewTee(obsCore, f1Logger(name).Core())).Named(name)

	prm.Blockchain = b
	prm.LocalAccount = wallet.NewAccountFromPrivateKey(c.members[member])
	prm.ValidatorMultiSigAccount = validatorAcc
	prm.NNS.Common = common(0)
	prm.NNS.SystemEmail = "nonexistent@nspcc.io"
	prm.ProxyContract.Common = common(1)
	prm.AuditContract.Common = common(2)
	prm.NetmapContract.Common = common(3)
	prm.NetmapContract.Config = NetworkConfiguration{
		MaxObjectSize:        64 << 20,
		StoragePrice:         100,
		AuditFee:             100,
		EpochDuration:        240,
		ContainerFee:         1000,
		ContainerAliasFee:    500,
		EigenTrustIterations: 4,
		EigenTrustAlpha:      0.1,
		IRCandidateFee:       100,
		WithdrawalFee:        100,
	}
	prm.BalanceContract.Common = common(4)
	prm.ReputationContract.Common = common(5)
	prm.NeoFSIDContract.Common = common(6)
	prm.ContainerContract.Common = common(7)
	prm.AlphabetContract.Common = common(8)
	prm.Glagolitsa = f1Glagolitsa{}
	return prm, nil
}

// f1Run represents concurrent Deploy runs of several committee members.
type f1Run struct {
	members []int
	// indexed by committee member, valid after done is closed
	errs []error
	// closed when all runs are completed
	done chan struct{}
}

// wait blocks until all the runs are completed. Runs are expected to be
// cancelled already, so this must not take long.
func (r *f1Run) wait(t *testing.T) {
	select {
	case <-r.done:
	case <-time.After(time.Minute):
		t.Fatal("cancelled Deploy calls do not return")
	}
}

// startMembers runs Deploy on behalf of each referenced committee member in a
// separate goroutine until completion or context cancellation. Clients and
// parameters are prepared synchronously.
func (c *f1Chain) startMembers(ctx context.Context, members ...int) *f1Run {
	r := &f1Run{
		members: members,
		errs:    make([]error, len(c.members)),
		done:    make(chan struct{}),
	}

	prms := make([]Prm, len(members))
	for i, member := range members {
		b, err := c.newClient()
		require.NoError(c.t, err)
		prms[i], err = c.deployPrm(b, member)
		require.NoError(c.t, err)
	}

	var wg sync.WaitGroup
	for i, member := range members {
		wg.Add(1)
		go func() {
			defer wg.Done()
			r.errs[member] = Deploy(ctx, prms[i])
		}()
	}
	go func() { wg.Wait(); close(r.done) }()

	return r
}

// notaryRoleDesignatedToCommittee checks whether P2PNotary role is designated
// to exactly the committee according to the chain's ledger.
func (c *f1Chain) notaryRoleDesignatedToCommittee() bool {
	nodes, _, err := c.bc.GetDesignatedByRole(noderoles.P2PNotary)
	if err != nil {
		return false
	}
	slices.SortFunc(nodes, (*keys.PublicKey).Cmp)
	return slices.EqualFunc(nodes, c.pubs, (*keys.PublicKey).Equal)
}

// describeNotaryBootstrap returns human-readable state of the Notary-bootstrap
// stage: what is published in the NNS and what the leader has tried to read.
func (c *f1Chain) describeNotaryBootstrap() string {
	var sb strings.Builder
	fmt.Fprintf(&sb, "height: %d\n", c.bc.BlockHeight())
	fmt.Fprintf(&sb, "Notary role designated to the committee: %t\n", c.notaryRoleDesignatedToCommittee())

	nnsHash, err := c.bc.GetContractScriptHash(1)
	if err != nil {
		fmt.Fprintf(&sb, "NNS contract is not deployed: %v\n", err)
		return sb.String()
	}

	b, err := c.newClient()
	if err != nil {
		fmt.Fprintf(&sb, "no RPC client: %v\n", err)
		return sb.String()
	}
	inv := invoker.New(b, nil)

	describeDomain := func(domain string) string {
		rec, err := lookupNNSDomainRecord(inv, nnsHash, domain)
		switch {
		case err == nil:
			return fmt.Sprintf("record of %d chars", len(rec))
		case errors.Is(err, errMissingDomain), errors.Is(err, errMissingDomainRecord):
			return err.Error()
		default:
			return "error: " + err.Error()
		}
	}

	fmt.Fprintf(&sb, "NNS %s (shared tx data of the leader): %s\n", domainDesignateNotaryTx, describeDomain(domainDesignateNotaryTx))
	for i := range c.members {
		domain := designateNotarySignatureDomainForMember(i)
		fmt.Fprintf(&sb, "NNS %s (signature of member #%d): %s\n", domain, i, describeDomain(domain))
	}

	if l := c.logs[0]; l != nil {
		// which signature domains the leader has ever looked up unsuccessfully
		const msg = "missing NNS domain record with committee member's signature of the transaction designating Notary role to the committee, will wait"
		mDomains := make(map[string]int)
		for _, e := range l.FilterMessage(msg).All() {
			if d, ok := e.ContextMap()["domain"].(string); ok {
				mDomains[d]++
			}
		}
		domains := make([]string, 0, len(mDomains))
		for d, num := range mDomains {
			domains = append(domains, fmt.Sprintf("%s (%d times)", d, num))
		}
		slices.Sort(domains)
		fmt.Fprintf(&sb, "signature domains the leader found missing: %v\n", domains)

		const msgGot = "received valid signature of the transaction designating Notary role to the committee submitted by committee member"
		fmt.Fprintf(&sb, "valid remote signatures received by the leader: %d\n", l.FilterMessage(msgGot).Len())
	}

	return sb.String()
}

// checkFinalState asserts post-conditions of the successful deployment.
func (c *f1Chain) checkFinalState(t *testing.T) {
	for _, role := range []noderoles.Role{noderoles.P2PNotary, noderoles.NeoFSAlphabet} {
		nodes, _, err := c.bc.GetDesignatedByRole(role)
		require.NoError(t, err)
		slices.SortFunc(nodes, (*keys.PublicKey).Cmp)
		require.Equal(t, c.pubs, nodes, "role %s must be designated to exactly the committee", role)
	}

	nnsHash, err := c.bc.GetContractScriptHash(1)
	require.NoError(t, err, "NNS contract must have ID=1")
	nnsState := c.bc.GetContractState(nnsHash)
	require.NotNil(t, nnsState)
	require.Equal(t, "NameService", nnsState.Manifest.Name)

	cs, err := contracts.GetFS()
	require.NoError(t, err)

	b, err := c.newClient()
	require.NoError(t, err)
	inv := invoker.New(b, nil)

	mDomains := map[string]int{
		domainProxy: 1, domainAudit: 2, domainNetmap: 3, domainBalance: 4,
		domainReputation: 5, domainNeoFSID: 6, domainContainer: 7,
	}
	for i := range c.members {
		mDomains[calculateAlphabetContractAddressDomain(i)] = 8
	}

	seen := make(map[util.Uint160]string)
	for d, ind := range mDomains {
		domain := d + "." + domainContractAddresses
		rec, err := lookupNNSDomainRecord(inv, nnsHash, domain)
		require.NoError(t, err, domain)
		h, err := util.Uint160DecodeStringLE(rec)
		require.NoError(t, err, domain)
		onChain := c.bc.GetContractState(h)
		require.NotNil(t, onChain, domain)
		require.Equal(t, cs[ind].NEF.Checksum, onChain.NEF.Checksum, domain)
		require.Equal(t, cs[ind].Manifest.Name, onChain.Manifest.Name, domain)
		prev, dup := seen[onChain.Hash]
		require.False(t, dup, "%s and %s resolve to the same contract", d, prev)
		seen[onChain.Hash] = d
	}
}
