package main
