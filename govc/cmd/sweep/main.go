// Command sweep: first level of the authorisation sweep (C03): a state-changing normal exit of an
// exported method must have passed a witness check.
package main

import (
	"fmt"
	"os"
	"strings"
	"sync"
	"time"

	"golang.org/x/tools/go/packages"

	"govc/smt"
	"govc/sx"
	"govc/sym"
)

// second level: the documented requirement of a method (Appendix B of DESIGN.md), as a formula over
// the witness predicate. Methods not listed keep the first-level check (some witness was required).
var table = map[string]string{
	"alphabet.Update": "cmt", "audit.Update": "cmt", "balance.Update": "cmt", "container.Update": "cmt", "neofsid.Update": "cmt",
	"netmap.Update": "cmt", "proxy.Update": "cmt", "reputation.Update": "cmt", "nns.Update": "cmt", "nns.SetPrice": "cmt", "nns.RegisterTLD": "cmt",
	"alphabet.Vote": "alpha", "balance.TransferX": "alpha", "balance.Lock": "alpha", "balance.NewEpoch": "alpha", "balance.Mint": "alpha", "balance.Burn": "alpha",
	"container.Put": "alpha", "container.PutMeta": "alpha", "container.PutNamed": "alpha", "container.Delete": "alpha", "container.SetEACL": "alpha",
	"container.AddNextEpochNodes": "alpha", "container.CommitContainerListUpdate": "alpha", "container.NewEpoch": "alpha",
	"container.StartContainerEstimation": "alpha", "container.StopContainerEstimation": "alpha",
	"neofsid.AddKey": "alpha", "neofsid.RemoveKey": "alpha", "reputation.Put": "alpha",
	"netmap.AddPeerIR": "alpha", "netmap.DeleteNode": "alpha", "netmap.UpdateStateIR": "alpha", "netmap.NewEpoch": "alpha",
	"netmap.UpdateSnapshotCount": "alpha", "netmap.SetConfig": "alpha", "netmap.SubscribeForNewEpoch": "alpha",
	"netmap.UpdateState": "alpha&key:publicKey", "netmap.AddPeer": "alpha&keysub:nodeInfo", "netmap.AddNode": "alpha&keyfield:n",
	"neofs.Withdraw": "key:user", "neofs.Bind": "key:user", "neofs.Unbind": "key:user", "neofs.InnerRingCandidateAdd": "key:key",
	"container.PutContainerSize": "key:pubKey", "nns.Register": "key:owner",
	"neofs.Cheque": "alpha|vote", "neofs.AlphabetUpdate": "alpha|vote", "neofs.SetConfig": "alpha|vote",
}

func requirement(name string) func(params map[string]*sx.T) *sx.T {
	spec, ok := table[name]
	if !ok {
		return nil
	}
	committee := sx.Atom("native_neo_GetCommittee")
	n := sx.App("L_NB_len", committee)
	tdiv := func(a, b *sx.T) *sx.T { // same shape as the executor's truncated division
		q := sx.App("div", sx.App("abs", a), sx.App("abs", b))
		same := sx.App("=", sx.App(">=", a, sx.Int(0)), sx.App(">", b, sx.Int(0)))
		return sx.Ite(same, q, sx.App("-", q))
	}
	ms := func(m *sx.T) *sx.T {
		return sx.App("W", sx.App("bv", sx.App("contract_CreateMultisigAccount", m, committee)))
	}
	alpha := ms(sx.App("+", tdiv(sx.App("*", n, sx.Int(2)), sx.Int(3)), sx.Int(1)))
	cmt := ms(sx.App("+", tdiv(n, sx.Int(2)), sx.Int(1)))
	return func(params map[string]*sx.T) *sx.T {
		var conj []*sx.T
		for _, part := range strings.Split(spec, "&") {
			switch {
			case part == "alpha":
				conj = append(conj, alpha)
			case part == "cmt":
				// nns uses l-(l-1)/2, the others len/2+1: both are accepted as "committee majority" here and
				// shown equal by the arithmetic lemma of section 10 (C03 P4)
				conj = append(conj, sx.Or(cmt, ms(sx.App("-", n, tdiv(sx.App("-", n, sx.Int(1)), sx.Int(2))))))
			case part == "alpha|vote":
				// without Notary the method must have found an Alphabet key with a witness: some W on a stored key;
				// expressed here as: alpha, or the caller holds the witness of the key returned by InnerRingInvoker
				conj = append(conj, sx.Or(alpha, sx.Atom("$anyW")))
			case strings.HasPrefix(part, "key:"):
				conj = append(conj, sx.App("W", sx.App("bv", params[strings.TrimPrefix(part, "key:")])))
			case strings.HasPrefix(part, "keysub:"):
				conj = append(conj, sx.App("W", sx.App("str.substr", sx.App("bv", params[strings.TrimPrefix(part, "keysub:")]), sx.Int(2), sx.Int(33))))
			case strings.HasPrefix(part, "keyfield:"):
				conj = append(conj, sx.App("W", sx.App("bv", sx.App("Node2_Key", params[strings.TrimPrefix(part, "keyfield:")]))))
			}
		}
		return sx.And(conj...)
	}
}

func main() {
	root := "/repo"
	if len(os.Args) > 1 {
		root = os.Args[1]
	}
	t0 := time.Now()
	cfg := &packages.Config{Mode: packages.NeedName | packages.NeedImports | packages.NeedDeps | packages.NeedTypes | packages.NeedSyntax | packages.NeedTypesInfo | packages.NeedFiles,
		Dir: root, BuildFlags: []string{"-tags=verif"}}
	var pats []string
	for _, c := range []string{"alphabet", "audit", "balance", "container", "neofs", "neofsid", "netmap", "nns", "processing", "proxy", "reputation"} {
		pats = append(pats, "./contracts/"+c)
	}
	pats = append(pats, "./common")
	pkgs, err := packages.Load(cfg, pats...)
	if err != nil {
		panic(err)
	}
	seen := map[string]bool{}
	var all []*packages.Package
	var add func(p *packages.Package)
	add = func(p *packages.Package) {
		if seen[p.PkgPath] || !strings.Contains(p.PkgPath, "neofs-contract") {
			return
		}
		seen[p.PkgPath] = true
		all = append(all, p)
		for _, i := range p.Imports {
			add(i)
		}
	}
	for _, p := range pkgs {
		add(p)
	}
	e := sym.New(all)
	e.Sweep = true
	for _, p := range all {
		e.LoadGlobals(p.PkgPath)
	}
	type item struct {
		name string
		ex   sym.SweepExit
		res  smt.Result
	}
	var items []*item
	nfun := 0
	for _, p := range pkgs {
		if !strings.Contains(p.PkgPath, "/contracts/") {
			continue
		}
		for _, fn := range e.ExportedFuncs(p.PkgPath) {
			if fn.Name() == "_deploy" {
				continue
			}
			name := p.Types.Name() + "." + fn.Name()
			exits, err := e.SweepFunc(p.PkgPath, fn, requirement(name))
			if err != nil {
				fmt.Printf("SKIP %-40s %v\n", name, err)
				continue
			}
			nfun++
			for _, ex := range exits {
				items = append(items, &item{name: name, ex: ex})
			}
		}
	}
	sem := make(chan struct{}, 16)
	var wg sync.WaitGroup
	for _, it := range items {
		if it.ex.Query == nil {
			continue
		}
		wg.Add(1)
		go func(it *item) {
			defer wg.Done()
			sem <- struct{}{}
			defer func() { <-sem }()
			it.res = smt.Check(it.ex.Query, smt.Options{Timeout: 10 * time.Second, QuantTimeout: 3 * time.Second, DumpDir: os.Getenv("SWEEP_DUMP")})
		}(it)
	}
	wg.Wait()
	type agg struct{ exits, dirty, nowit, unproved, proved int }
	per := map[string]*agg{}
	var order []string
	for _, it := range items {
		a := per[it.name]
		if a == nil {
			a = &agg{}
			per[it.name] = a
			order = append(order, it.name)
		}
		a.exits++
		if !it.ex.Dirty {
			continue
		}
		a.dirty++
		switch {
		case len(it.ex.Witnesses) == 0:
			a.nowit++
		case it.res.Status == "unsat":
			a.proved++
		default:
			a.unproved++
		}
	}
	q := 0
	for _, n := range order {
		a := per[n]
		q += a.proved + a.unproved
		flag := ""
		if a.nowit > 0 {
			flag = "  <-- state change without any witness check"
		} else if a.unproved > 0 {
			flag = "  <-- witness not implied on some dirty exit"
		}
		if a.dirty > 0 {
			fmt.Printf("%-42s exits=%-4d dirty=%-4d witnessed=%-4d%s\n", n, a.exits, a.dirty, a.proved, flag)
		}
	}
	fmt.Printf("\n%d methods, %d normal exits, %d solver queries, wall %.1fs\n", nfun, len(items), q, time.Since(t0).Seconds())
}
