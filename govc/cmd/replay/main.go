// Command replay (scratch prototype): run a counterexample of a failed obligation against the real
// contract (compiled by the real neo-go compiler from a scratch copy of the working tree, executed
// in the neotest VM) and evaluate the violated clause on what was observed.
package main

import (
	"bytes"
	"encoding/hex"
	"encoding/json"
	"fmt"
	"os"
	"os/exec"
	"path/filepath"
	"sort"
	"strconv"
	"strings"
	"time"

	"golang.org/x/tools/go/packages"

	"govc/smt"
	"govc/spec"
	"govc/sx"
	"govc/sym"
)

type Case struct {
	Root, Pkg, Spec, Func, Obligation, Clause, Solver string
	Params                                            []sym.ParamInfo
	Results                                           []string
	Exported, Recv                                    bool
	Model                                             map[string]string
}

// decodeSMTString turns an SMT-LIB string literal into raw bytes.
func decodeSMTString(lit string) []byte {
	s := lit[1 : len(lit)-1]
	var out []byte
	for i := 0; i < len(s); {
		switch {
		case strings.HasPrefix(s[i:], `""`):
			out = append(out, '"')
			i += 2
		case strings.HasPrefix(s[i:], `\u{`):
			j := strings.IndexByte(s[i:], '}')
			v, _ := strconv.ParseUint(s[i+3:i+j], 16, 32)
			out = append(out, byte(v))
			i += j + 1
		default:
			out = append(out, s[i])
			i++
		}
	}
	return out
}

func intOf(t *sx.T) int64 {
	if t.IsAtom() {
		v, _ := strconv.ParseInt(t.A, 10, 64)
		return v
	}
	if t.Head() == "-" && len(t.L) == 2 {
		return -intOf(t.L[1])
	}
	return 0
}

// nb decodes (mkNB isnull "bytes"): nil slice for null.
func nb(t *sx.T) ([]byte, bool) {
	if t.Head() != "mkNB" {
		return nil, true
	}
	if t.L[1].A == "true" {
		return nil, true
	}
	return decodeSMTString(t.L[2].A), false
}

type cell struct {
	Key    []byte
	Absent bool
	Raw    []byte
	Struct string
	Fields []*sx.T
}

func main() {
	if len(os.Args) < 2 {
		fmt.Println("usage: replay case.json")
		os.Exit(2)
	}
	raw, err := os.ReadFile(os.Args[1])
	if err != nil {
		panic(err)
	}
	var c Case
	if err := json.Unmarshal(raw, &c); err != nil {
		panic(err)
	}
	t0 := time.Now()
	val := func(term string) (*sx.T, bool) {
		v, ok := c.Model[term]
		if !ok {
			return nil, false
		}
		return sx.MustParse1(v), true
	}
	// ---- storage cells of the pre-state read on the path ----------------------------------
	var cells []cell
	for term, v := range c.Model {
		if !strings.HasPrefix(term, "(select store0 ") {
			continue
		}
		keyTerm := term[len("(select store0 ") : len(term)-1]
		kv, ok := val(keyTerm)
		if !ok || !kv.IsAtom() {
			continue
		}
		cl := cell{Key: decodeSMTString(kv.A)}
		pv := sx.MustParse1(v)
		if pv.IsAtom() && pv.A == "None" {
			cl.Absent = true
		} else {
			cl.Raw = decodeSMTString(pv.L[1].A)
			for t2, v2 := range c.Model {
				if strings.HasPrefix(t2, "(deser_") && strings.HasSuffix(t2, "(val "+term+"))") {
					sv := sx.MustParse1(v2)
					cl.Struct = strings.TrimPrefix(sv.Head(), "mk")
					cl.Fields = sv.L[1:]
				}
			}
		}
		dup := false
		for _, o := range cells {
			if bytes.Equal(o.Key, cl.Key) {
				dup = true
			}
		}
		if !dup {
			cells = append(cells, cl)
		}
	}
	sort.Slice(cells, func(i, j int) bool { return bytes.Compare(cells[i].Key, cells[j].Key) < 0 })
	// ---- witnesses ---------------------------------------------------------------------------
	alphabet := c.Model["(W alphabetAddr)"] == "true"
	witness := map[string]bool{} // hex address -> has witness
	for term, v := range c.Model {
		if !strings.HasPrefix(term, "(W ") || term == "(W alphabetAddr)" {
			continue
		}
		if av, ok := val(term[3 : len(term)-1]); ok && av.IsAtom() {
			witness[hex.EncodeToString(decodeSMTString(av.A))] = v == "true"
		}
	}
	// ---- parameters --------------------------------------------------------------------------
	type arg struct {
		Name, Kind string
		Int        int64
		Bool       bool
		Bytes      []byte
		Nil        bool
	}
	var args []arg
	for _, p := range c.Params {
		if p.Term == "" || !strings.HasPrefix(p.Term, "p_") {
			continue
		}
		v, _ := val(p.Term)
		a := arg{Name: p.Name}
		switch p.Sort {
		case "Int":
			a.Kind, a.Int = "int", intOf(v)
		case "Bool":
			a.Kind, a.Bool = "bool", v.A == "true"
		case "NB":
			a.Kind = "bytes"
			a.Bytes, a.Nil = nb(v)
		default:
			fmt.Println("REPLAY: parameter sort not supported by the prototype:", p.Sort)
			os.Exit(3)
		}
		args = append(args, a)
	}
	// model addresses (20-byte values) are renamed to real accounts created by the test
	addrs := map[string]bool{}
	note := func(b []byte) {
		if len(b) == 20 {
			addrs[hex.EncodeToString(b)] = true
		}
	}
	for _, a := range args {
		note(a.Bytes)
	}
	for h := range witness {
		b, _ := hex.DecodeString(h)
		note(b)
	}
	for _, cl := range cells {
		if len(cl.Key) == 21 {
			note(cl.Key[1:])
		}
	}
	var addrList []string
	for a := range addrs {
		addrList = append(addrList, a)
	}
	sort.Strings(addrList)

	// ---- scratch copy, wrapper, test ---------------------------------------------------------------
	scratch, _ := os.MkdirTemp("", "govc-replay-")
	defer os.RemoveAll(scratch)
	if out, err := exec.Command("rsync", "-a", "--exclude", ".git", c.Root+"/", scratch+"/").CombinedOutput(); err != nil {
		panic(string(out))
	}
	pkgName := filepath.Base(c.Pkg)
	method := c.Func
	wrapper := ""
	if !c.Exported {
		// generate an exported wrapper for the unexported function or method
		method = "verif" + strings.ReplaceAll(strings.Title(strings.ReplaceAll(c.Func, ".", " ")), " ", "")
		var ps, as []string
		for _, p := range c.Params {
			switch {
			case strings.HasSuffix(p.GoType, "storage.Context"):
				as = append(as, "storage.GetContext()")
			case p.Term != "" && !strings.HasPrefix(p.Term, "p_"):
				continue // receiver bound to a package-level object
			default:
				gt := p.GoType
				gt = strings.ReplaceAll(gt, "github.com/nspcc-dev/neo-go/pkg/interop.", "interop.")
				ps = append(ps, p.Name+" "+gt)
				as = append(as, p.Name)
			}
		}
		call := strings.ToLower(c.Func[:1]) + c.Func[1:]
		if c.Recv {
			parts := strings.SplitN(c.Func, ".", 2)
			call = strings.ToLower(parts[0]) + "." + parts[1] // package-level object named after its type (balance: token)
		}
		ret, retKw := "", ""
		if len(c.Results) == 1 {
			ret, retKw = " "+strings.ReplaceAll(c.Results[0], "github.com/nspcc-dev/neo-go/pkg/interop.", "interop."), "return "
		}
		wrapper = fmt.Sprintf(`package %s

import (
	"github.com/nspcc-dev/neo-go/pkg/interop"
	"github.com/nspcc-dev/neo-go/pkg/interop/storage"
)

var _ = interop.Hash160Len

// %s is generated by the verifier's replay (scratch copy only).
func %s(%s)%s {
	%s%s(%s)
}

// VerifSeed writes one raw storage cell (scratch copy only).
func VerifSeed(key []byte, value []byte) {
	storage.Put(storage.GetContext(), key, value)
}
`, pkgName, strings.Title(method), strings.Title(method), strings.Join(ps, ", "), ret, retKw, call, strings.Join(as, ", "))
	} else {
		wrapper = fmt.Sprintf(`package %s

import "github.com/nspcc-dev/neo-go/pkg/interop/storage"

// VerifSeed writes one raw storage cell (scratch copy only).
func VerifSeed(key []byte, value []byte) {
	storage.Put(storage.GetContext(), key, value)
}
`, pkgName)
		method = strings.ToLower(c.Func[:1]) + c.Func[1:]
	}
	os.WriteFile(filepath.Join(scratch, c.Pkg, "zz_verif_wrap.go"), []byte(wrapper), 0o644)

	var tb strings.Builder
	tb.WriteString(`package tests

import (
	"bytes"
	"encoding/hex"
	"encoding/json"
	"fmt"
	"math/big"
	"testing"

	"github.com/nspcc-dev/neo-go/pkg/neotest"
	"github.com/nspcc-dev/neo-go/pkg/util"
	"github.com/nspcc-dev/neo-go/pkg/vm/stackitem"
)

var _ = big.NewInt
var _ = util.Uint160{}

func TestVerifReplay(t *testing.T) {
	e := newExecutor(t)
	deployDefaultNNS(t, e)
	deployNetmapContract(t, e)
	h := deployBalanceContract(t, e, util.Uint160{}, util.Uint160{})
	c := e.CommitteeInvoker(h)
	id := e.Chain.GetContractState(h).ID
	unhex := func(s string) []byte { b, _ := hex.DecodeString(s); return b }
	// model addresses -> real accounts
	real := map[string]neotest.Signer{}
	var order []string
`)
	for _, a := range addrList {
		fmt.Fprintf(&tb, "\treal[%q] = c.NewAccount(t)\n\torder = append(order, %q)\n", a, a)
	}
	tb.WriteString(`	ren := func(b []byte) []byte {
		for _, a := range order {
			b = bytes.ReplaceAll(b, unhex(a), real[a].ScriptHash().BytesBE())
		}
		return b
	}
	_ = ren
`)
	for _, cl := range cells {
		if cl.Absent {
			continue
		}
		if cl.Struct != "" {
			var items []string
			for _, f := range cl.Fields {
				switch {
				case f.Head() == "mkNB":
					b, isNil := nb(f)
					if isNil {
						items = append(items, "stackitem.Null{}")
					} else {
						items = append(items, fmt.Sprintf("stackitem.NewByteArray(ren(unhex(%q)))", hex.EncodeToString(b)))
					}
				default:
					items = append(items, fmt.Sprintf("stackitem.NewBigInteger(big.NewInt(%d))", intOf(f)))
				}
			}
			fmt.Fprintf(&tb, "\t{\n\t\tv, err := stackitem.Serialize(stackitem.NewStruct([]stackitem.Item{%s}))\n\t\tif err != nil {\n\t\t\tt.Fatal(err)\n\t\t}\n\t\tc.Invoke(t, stackitem.Null{}, \"verifSeed\", ren(unhex(%q)), v)\n\t}\n",
				strings.Join(items, ", "), hex.EncodeToString(cl.Key))
		} else {
			fmt.Fprintf(&tb, "\tc.Invoke(t, stackitem.Null{}, \"verifSeed\", ren(unhex(%q)), unhex(%q))\n", hex.EncodeToString(cl.Key), hex.EncodeToString(cl.Raw))
		}
	}
	// signers
	tb.WriteString("\tvar signers []neotest.Signer\n")
	if alphabet {
		tb.WriteString("\tsigners = append(signers, e.Committee)\n")
	}
	var ws []string
	for a, has := range witness {
		if has && addrs[a] {
			ws = append(ws, a)
		}
	}
	sort.Strings(ws)
	for _, a := range ws {
		fmt.Fprintf(&tb, "\tsigners = append(signers, real[%q])\n", a)
	}
	tb.WriteString("\tif len(signers) == 0 {\n\t\tsigners = append(signers, c.NewAccount(t)) // somebody has to pay; carries no relevant witness\n\t}\n")
	var call []string
	for _, a := range args {
		switch a.Kind {
		case "int":
			call = append(call, fmt.Sprintf("big.NewInt(%d)", a.Int))
		case "bool":
			call = append(call, fmt.Sprint(a.Bool))
		case "bytes":
			if a.Nil {
				call = append(call, "nil")
			} else {
				call = append(call, fmt.Sprintf("ren(unhex(%q))", hex.EncodeToString(a.Bytes)))
			}
		}
	}
	fmt.Fprintf(&tb, "\ttx := c.WithSigners(signers...).PrepareInvoke(t, %q, %s)\n", method, strings.Join(call, ", "))
	tb.WriteString(`	c.AddNewBlock(t, tx)
	aer := e.GetTxExecResult(t, tx.Hash())
	out := map[string]any{"state": aer.VMState.String(), "fault": aer.FaultException}
	if len(aer.Stack) > 0 {
		if b, err := aer.Stack[0].TryBool(); err == nil {
			out["result_bool"] = b
		}
	}
	var evs []map[string]any
	for _, ev := range aer.Events {
		m := map[string]any{"name": ev.Name}
		var as []string
		for _, it := range ev.Item.Value().([]stackitem.Item) {
			if bi, err := it.TryInteger(); err == nil && it.Type() == stackitem.IntegerT {
				as = append(as, "i:"+bi.String())
			} else if b, err := it.TryBytes(); err == nil {
				as = append(as, "b:"+hex.EncodeToString(b))
			} else {
				as = append(as, "null")
			}
		}
		m["args"] = as
		evs = append(evs, m)
	}
	out["events"] = evs
	cells := map[string]any{}
	renamed := map[string]string{}
	for _, a := range order {
		renamed[a] = hex.EncodeToString(real[a].ScriptHash().BytesBE())
	}
	out["renamed"] = renamed
	for _, k := range []string{`)
	for _, cl := range cells {
		fmt.Fprintf(&tb, "%q, ", hex.EncodeToString(cl.Key))
	}
	tb.WriteString(`} {
		key := ren(unhex(k))
		item := e.Chain.GetStorageItem(id, key)
		if item == nil {
			cells[k] = nil
			continue
		}
		m := map[string]any{"raw": hex.EncodeToString(item)}
		if it, err := stackitem.Deserialize(item); err == nil {
			if arr, ok := it.Value().([]stackitem.Item); ok {
				var fs []string
				for _, f := range arr {
					if bi, err := f.TryInteger(); err == nil && f.Type() == stackitem.IntegerT {
						fs = append(fs, "i:"+bi.String())
					} else if b, err := f.TryBytes(); err == nil {
						fs = append(fs, "b:"+hex.EncodeToString(b))
					} else {
						fs = append(fs, "null")
					}
				}
				m["fields"] = fs
			}
		}
		cells[k] = m
	}
	out["cells"] = cells
	j, _ := json.Marshal(out)
	fmt.Println("REPLAY-RESULT " + string(j))
}
`)
	os.WriteFile(filepath.Join(scratch, "tests", "zz_verif_replay_test.go"), []byte(tb.String()), 0o644)
	if keep := os.Getenv("REPLAY_KEEP"); keep != "" {
		os.WriteFile(keep, []byte(tb.String()+"\n/* wrapper:\n"+wrapper+"*/\n"), 0o644)
	}
	cmd := exec.Command("go", "test", "-vet=off", "-count=1", "-timeout", "120s", "-run", "TestVerifReplay", "-v", ".")
	cmd.Dir = filepath.Join(scratch, "tests")
	cmd.Env = append(os.Environ(), "GOFLAGS=-mod=mod", "GOPROXY=off", "GOSUMDB=off", "GOTOOLCHAIN=local")
	outB, _ := cmd.CombinedOutput()
	var resLine string
	for _, ln := range strings.Split(string(outB), "\n") {
		if i := strings.Index(ln, "REPLAY-RESULT "); i >= 0 {
			resLine = ln[i+len("REPLAY-RESULT "):]
		}
	}
	if resLine == "" {
		fmt.Println("REPLAY: the real code could not be run on this counterexample")
		tail := strings.Split(string(outB), "\n")
		if len(tail) > 15 {
			tail = tail[len(tail)-15:]
		}
		fmt.Println(strings.Join(tail, "\n"))
		os.Exit(3)
	}
	var obs struct {
		State, Fault string
		ResultBool   *bool `json:"result_bool"`
		Events       []struct {
			Name string
			Args []string
		}
		Renamed map[string]string
		Cells   map[string]*struct {
			Raw    string
			Fields []string
		}
	}
	json.Unmarshal([]byte(resLine), &obs)
	fmt.Printf("real run: %s %s (%.1fs)\n", obs.State, obs.Fault, time.Since(t0).Seconds())
	if obs.State != "HALT" {
		fmt.Println("REPLAY: the real execution faulted, so the transaction is reverted and no postcondition is owed: NOT REPRODUCED")
		os.Exit(1)
	}
	// ---- evaluate the clause on the observation ---------------------------------------------------
	cfg := &packages.Config{Mode: packages.NeedName | packages.NeedImports | packages.NeedDeps | packages.NeedTypes | packages.NeedSyntax | packages.NeedTypesInfo | packages.NeedFiles, Dir: c.Root}
	pkgs, err := packages.Load(cfg, c.Pkg, "./common")
	if err != nil {
		panic(err)
	}
	e := sym.New(pkgs)
	var target *packages.Package
	for _, p := range pkgs {
		if strings.HasSuffix(p.PkgPath, strings.TrimPrefix(c.Pkg, ".")) {
			target = p
		}
	}
	src, _ := os.ReadFile(c.Spec)
	sp, err := spec.Parse(string(src))
	if err != nil {
		panic(err)
	}
	e.Specs[target.PkgPath] = sp
	for _, p := range pkgs {
		e.LoadGlobals(p.PkgPath)
	}
	e.VerifyFunc(target.PkgPath, c.Func, true) // registers the struct sorts
	fieldTerm := func(f string) *sx.T {
		switch {
		case strings.HasPrefix(f, "i:"):
			return sx.IntS(f[2:])
		case strings.HasPrefix(f, "b:"):
			b, _ := hex.DecodeString(f[2:])
			return spec.MkNB(sx.Str(string(b)))
		}
		return spec.NilNB
	}
	var pre, post []sym.ConcreteCell
	for _, cl := range cells {
		pre = append(pre, sym.ConcreteCell{Key: string(cl.Key), Absent: cl.Absent, Raw: string(cl.Raw), Struct: cl.Struct, Fields: cl.Fields})
		o := obs.Cells[hex.EncodeToString(cl.Key)]
		pc := sym.ConcreteCell{Key: string(cl.Key)}
		if o == nil {
			pc.Absent = true
		} else {
			rawB, _ := hex.DecodeString(o.Raw)
			pc.Raw = "post:" + string(rawB)
			if len(o.Fields) > 0 {
				pc.Struct = "Account"
				for _, f := range o.Fields {
					ft := fieldTerm(f)
					// undo the renaming inside byte fields so that the observation is in model addresses
					if ft.Head() == "mkNB" && ft.L[1].A == "false" {
						b := decodeSMTString(ft.L[2].A)
						for m, r := range obs.Renamed {
							rb, _ := hex.DecodeString(r)
							mb, _ := hex.DecodeString(m)
							b = bytes.ReplaceAll(b, rb, mb)
						}
						ft = spec.MkNB(sx.Str(string(b)))
					}
					pc.Fields = append(pc.Fields, ft)
				}
			}
		}
		post = append(post, pc)
	}
	params := map[string]spec.TV{}
	for _, a := range args {
		switch a.Kind {
		case "int":
			params[a.Name] = spec.TV{T: sx.Int(a.Int), Ty: spec.Type{K: spec.KInt}}
		case "bool":
			params[a.Name] = spec.TV{T: sx.Bool(a.Bool), Ty: spec.Type{K: spec.KBool}}
		case "bytes":
			if a.Nil {
				params[a.Name] = spec.TV{T: spec.NilNB, Ty: spec.Type{K: spec.KNB}}
			} else {
				params[a.Name] = spec.TV{T: spec.MkNB(sx.Str(string(a.Bytes))), Ty: spec.Type{K: spec.KNB}}
			}
		}
	}
	var results []spec.TV
	if obs.ResultBool != nil {
		results = append(results, spec.TV{T: sx.Bool(*obs.ResultBool), Ty: spec.Type{K: spec.KBool}})
	}
	q, err := e.EvalClause(target.PkgPath, c.Func, c.Clause, params, results, pre, post, nil)
	if err != nil {
		fmt.Println("REPLAY: cannot evaluate the clause:", err)
		os.Exit(3)
	}
	res := smt.Check(q, smt.Options{Timeout: 20 * time.Second, QuantTimeout: 5 * time.Second})
	fmt.Printf("clause evaluated on the observed execution: %s (%s, %s)\n", map[string]string{"unsat": "HOLDS", "sat": "VIOLATED", "unknown": "undecided"}[res.Status], res.Solver, res.Stage)
	fmt.Printf("observation: %s\n", resLine)
	if res.Status == "sat" {
		fmt.Printf("REPLAY: violation of %q CONFIRMED on the real code\n", c.Clause)
		os.Exit(1)
	}
	fmt.Println("REPLAY: NOT REPRODUCED")
}
