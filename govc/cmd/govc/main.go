// Command govc (scratch prototype): verify the functions under contract of one package.
package main

import (
	"encoding/json"
	"flag"
	"fmt"
	"os"
	"sort"
	"strings"
	"sync"
	"time"

	"golang.org/x/tools/go/packages"

	"govc/smt"
	"govc/spec"
	"govc/sym"
)

func main() {
	root := flag.String("root", "/repo", "repository root")
	pkgRel := flag.String("pkg", "./contracts/balance", "package under verification")
	specFile := flag.String("spec", "", "contract file (default: /*@ blocks of verif_contracts.go in the package)")
	only := flag.String("func", "", "verify only this function")
	modular := flag.Bool("modular", true, "use callee contracts instead of inlining")
	dump := flag.String("dump", "", "directory for SMT dumps")
	timeout := flag.Duration("timeout", 20*time.Second, "per-query timeout")
	verbose := flag.Bool("v", false, "print every query")
	commonSpec := flag.String("common-spec", "", "contract file of ./common (callee contracts)")
	replayDir := flag.String("replay-dir", "", "write a replay case for every failed obligation that has a counterexample")
	flag.Parse()

	t0 := time.Now()
	cfg := &packages.Config{Mode: packages.NeedName | packages.NeedImports | packages.NeedDeps | packages.NeedTypes | packages.NeedSyntax | packages.NeedTypesInfo | packages.NeedFiles,
		Dir: *root, BuildFlags: []string{"-tags=verif"}}
	pkgs, err := packages.Load(cfg, *pkgRel, "./common")
	if err != nil {
		fmt.Fprintln(os.Stderr, err)
		os.Exit(2)
	}
	if n := packages.PrintErrors(pkgs); n > 0 {
		fmt.Fprintf(os.Stderr, "%d build errors in %s: the tree does not compile, nothing is verified\n", n, *root)
		os.Exit(2)
	}
	e := sym.New(pkgs)
	var target *packages.Package
	for _, p := range pkgs {
		if strings.HasSuffix(p.PkgPath, strings.TrimPrefix(*pkgRel, ".")) {
			target = p
		}
	}
	src := ""
	if *specFile != "" {
		b, err := os.ReadFile(*specFile)
		if err != nil {
			fmt.Fprintln(os.Stderr, err)
			os.Exit(2)
		}
		src = string(b)
		if strings.Contains(src, "/*@") {
			src = sym.ExtractSpec(src)
		}
	} else {
		for _, f := range target.GoFiles {
			if strings.HasSuffix(f, "verif_contracts.go") {
				b, _ := os.ReadFile(f)
				src += sym.ExtractSpec(string(b))
			}
		}
	}
	sp, err := spec.Parse(src)
	if err != nil {
		fmt.Fprintln(os.Stderr, err)
		os.Exit(2)
	}
	e.Specs[target.PkgPath] = sp
	if *commonSpec != "" {
		b, err := os.ReadFile(*commonSpec)
		if err != nil {
			fmt.Fprintln(os.Stderr, err)
			os.Exit(2)
		}
		csp, err := spec.Parse(string(b))
		if err != nil {
			fmt.Fprintln(os.Stderr, err)
			os.Exit(2)
		}
		for _, p := range pkgs {
			if strings.HasSuffix(p.PkgPath, "/common") && p != target {
				e.Specs[p.PkgPath] = csp
			}
		}
	}
	for _, p := range pkgs {
		if err := e.LoadGlobals(p.PkgPath); err != nil {
			fmt.Fprintln(os.Stderr, "warning:", err)
		}
	}
	fmt.Printf("loaded in %.1fs; %d functions under contract\n", time.Since(t0).Seconds(), len(sp.Funcs))

	type job struct {
		obl *sym.Obligation
		q   *smt.Query
		res smt.Result
	}
	var jobs []*job
	var reports []*sym.FuncReport
	for _, key := range e.SpecFuncs(target.PkgPath) {
		if *only != "" && key != *only {
			continue
		}
		rep, err := e.VerifyFunc(target.PkgPath, key, *modular)
		if err != nil {
			fmt.Println("ERROR", err)
			continue
		}
		reports = append(reports, rep)
		for _, o := range rep.Obligations {
			for _, q := range o.Queries {
				jobs = append(jobs, &job{obl: o, q: q})
			}
		}
	}
	if len(sp.Lemmas) > 0 && *only == "" {
		rep := e.VerifyLemmas(target.PkgPath)
		reports = append(reports, rep)
		for _, o := range rep.Obligations {
			for _, q := range o.Queries {
				jobs = append(jobs, &job{obl: o, q: q})
			}
		}
	}
	sem := make(chan struct{}, 16)
	var wg sync.WaitGroup
	for _, j := range jobs {
		wg.Add(1)
		go func(j *job) {
			defer wg.Done()
			sem <- struct{}{}
			defer func() { <-sem }()
			j.res = smt.Check(j.q, smt.Options{Timeout: *timeout, QuantTimeout: 5 * time.Second, NoQuantStage: strings.HasSuffix(j.obl.Name, "#canary") && !strings.HasSuffix(j.q.Name, "@0"), DumpDir: *dump})
		}(j)
	}
	wg.Wait()
	byObl := map[*sym.Obligation][]*job{}
	for _, j := range jobs {
		byObl[j.obl] = append(byObl[j.obl], j)
	}
	total, ok, bad := 0, 0, 0
	for _, rep := range reports {
		fmt.Printf("%s: %d normal exits, %d fault exits\n", rep.Func, rep.Exits, rep.FaultExits)
		for _, o := range rep.Obligations {
			js := byObl[o]
			status := "discharged"
			var worst *job
			var secs float64
			backends := map[string]int{}
			for _, j := range js {
				secs += j.res.Seconds
				backends[j.res.Solver+"/"+j.res.Stage]++
				if j.res.Status != "unsat" {
					status = "FAILED(" + j.res.Status + ")"
					if worst == nil || j.res.Status == "sat" {
						worst = j
					}
				}
			}
			canary := strings.HasSuffix(o.Name, "#canary")
			if canary {
				if status == "discharged" {
					status = "VACUOUS (false was proved)"
				} else {
					status = "ok (false not provable)"
				}
			} else {
				total++
				if status == "discharged" {
					ok++
				} else {
					bad++
				}
			}
			var bs []string
			for k, n := range backends {
				bs = append(bs, fmt.Sprintf("%s:%d", k, n))
			}
			sort.Strings(bs)
			fmt.Printf("  %-46s %-3d queries %6.2fs %-28s %v %s\n", o.Name, len(js), secs, status, o.Tags, strings.Join(bs, " "))
			if worst != nil && !canary && *replayDir != "" && worst.res.Model != nil {
				os.MkdirAll(*replayDir, 0o755)
				rc := map[string]any{"root": *root, "pkg": *pkgRel, "spec": *specFile, "func": strings.SplitN(rep.Func, ".", 2)[1], "obligation": o.Name,
					"clause": o.Text, "tags": o.Tags, "params": rep.Params, "results": rep.Results, "exported": rep.Exported, "recv": rep.Recv, "model": worst.res.Model, "solver": worst.res.Solver}
				b, _ := json.MarshalIndent(rc, "", " ")
				os.WriteFile(*replayDir+"/"+strings.NewReplacer("/", "_", "#", "-").Replace(o.Name)+".json", b, 0o644)
			}
			if worst != nil && !canary {
				fmt.Printf("      clause: %s\n", o.Text)
				if worst.res.Model != nil {
					var ks []string
					for k := range worst.res.Model {
						ks = append(ks, k)
					}
					sort.Strings(ks)
					for _, k := range ks {
						fmt.Printf("      %s = %s\n", k, worst.res.Model[k])
					}
				}
			}
			if *verbose {
				for _, j := range js {
					fmt.Printf("      %s: %s %s %s %.2fs insts=%d size=%d\n", j.q.Name, j.res.Status, j.res.Stage, j.res.Solver, j.res.Seconds, j.res.Insts, j.res.Size)
				}
			}
		}
	}
	fmt.Printf("obligations: %d, discharged: %d, failed: %d, wall %.1fs\n", total, ok, bad, time.Since(t0).Seconds())
}
