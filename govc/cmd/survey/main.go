// Command survey: run the symbolic executor without contracts over every exported contract method.
package main

import (
	"fmt"
	"os"
	"sort"
	"strings"

	"golang.org/x/tools/go/packages"

	"govc/sym"
)

func main() {
	root := "/repo"
	if len(os.Args) > 1 {
		root = os.Args[1]
	}
	cfg := &packages.Config{Mode: packages.NeedName | packages.NeedImports | packages.NeedDeps | packages.NeedTypes | packages.NeedSyntax | packages.NeedTypesInfo | packages.NeedFiles,
		Dir: root, BuildFlags: []string{"-tags=verif"}}
	var pats []string
	for _, c := range []string{"alphabet", "audit", "balance", "container", "neofs", "neofsid", "netmap", "nns", "processing", "proxy", "reputation"} {
		pats = append(pats, "./contracts/"+c)
	}
	pats = append(pats, "./common")
	pkgs, err := packages.Load(cfg, pats...)
	if err != nil {
		panic(err)
	}
	// include imported helper packages (nodestate, recordtype, containerconst)
	seen := map[string]bool{}
	var all []*packages.Package
	var add func(p *packages.Package)
	add = func(p *packages.Package) {
		if seen[p.PkgPath] || !strings.Contains(p.PkgPath, "neofs-contract") {
			return
		}
		seen[p.PkgPath] = true
		all = append(all, p)
		for _, i := range p.Imports {
			add(i)
		}
	}
	for _, p := range pkgs {
		add(p)
	}
	e := sym.New(all)
	e.Sweep = true
	for _, p := range all {
		if err := e.LoadGlobals(p.PkgPath); err != nil {
			fmt.Println("globals:", err)
		}
	}
	reasons := map[string][]string{}
	ok, bad := 0, 0
	for _, p := range pkgs {
		if !strings.Contains(p.PkgPath, "/contracts/") {
			continue
		}
		for _, fn := range e.ExportedFuncs(p.PkgPath) {
			n, f, err := e.SurveyFunc(p.PkgPath, fn)
			name := p.Types.Name() + "." + fn.Name()
			if err != nil {
				bad++
				r := err.Error()
				if len(r) > 70 {
					r = r[:70]
				}
				reasons[r] = append(reasons[r], name)
			} else {
				ok++
				fmt.Printf("ok   %-40s normal=%d fault=%d\n", name, n, f)
			}
		}
	}
	fmt.Printf("\nexecuted: %d, outside prototype subset: %d\n", ok, bad)
	var rs []string
	for r := range reasons {
		rs = append(rs, r)
	}
	sort.Slice(rs, func(i, j int) bool { return len(reasons[rs[i]]) > len(reasons[rs[j]]) })
	for _, r := range rs {
		fmt.Printf("%3d  %-72s %s\n", len(reasons[r]), r, strings.Join(reasons[r], " "))
	}
}
