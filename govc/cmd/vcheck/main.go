// Command vcheck is the check driver of /verif: `vcheck -prop C01 -tier quick`.
package main

import (
	"flag"
	"fmt"
	"os"
	"strconv"
	"time"

	"govc/drv"
)

func main() {
	var opt drv.Options
	flag.StringVar(&opt.Root, "root", "/repo", "repository under verification")
	flag.StringVar(&opt.Verif, "verif", "/verif", "verification directory (baseline, known findings, evidence, replays)")
	flag.StringVar(&opt.Prop, "prop", "", "property id")
	flag.StringVar(&opt.Tier, "tier", "quick", "quick | thorough")
	flag.StringVar(&opt.OnlyModule, "module", "", "only this module (development)")
	flag.StringVar(&opt.OnlyFunc, "func", "", "only this function (development)")
	flag.StringVar(&opt.DumpDir, "dump", "", "directory for SMT dumps")
	flag.BoolVar(&opt.Verbose, "v", false, "print every obligation")
	flag.BoolVar(&opt.NoEvidence, "no-evidence", false, "do not write evidence/<id>.json (development runs)")
	flag.BoolVar(&opt.NoReplay, "no-replay", false, "do not replay counterexamples on the real code")
	flag.DurationVar(&opt.Timeout, "timeout", 0, "per-query timeout (default 20s quick, 120s thorough)")
	baseline := flag.Bool("write-baseline", false, "record the obligations discharged by this run as the baseline of the property")
	replay := flag.String("replay", "", "replay the case in this file on the real code")
	aliasScan := flag.Bool("alias-scan", false, "print the alias-mutation scan over all contract packages (development)")
	flag.Parse()
	if *aliasScan {
		drv.AliasReport(opt.Root, []string{"./common", "./contracts/alphabet", "./contracts/audit", "./contracts/balance", "./contracts/container", "./contracts/neofs", "./contracts/neofsid", "./contracts/netmap", "./contracts/nns", "./contracts/processing", "./contracts/proxy", "./contracts/reputation"})
		return
	}
	if s := os.Getenv("VERIF_SEED"); s != "" {
		opt.Seed, _ = strconv.Atoi(s)
	}
	if t := os.Getenv("VERIF_TIER"); t != "" && opt.Tier == "" {
		opt.Tier = t
	}
	if *replay != "" {
		st, note := drv.Replay(opt, *replay)
		fmt.Printf("replay: %s (%s)\n", st, note)
		if st == "confirmed" {
			os.Exit(1)
		}
		os.Exit(0)
	}
	if opt.Prop == "" {
		fmt.Fprintln(os.Stderr, "usage: vcheck -prop <id> [-tier quick|thorough]")
		os.Exit(2)
	}
	t0 := time.Now()
	code := drv.Check(opt, *baseline)
	fmt.Printf("wall %.1fs, exit %d\n", time.Since(t0).Seconds(), code)
	os.Exit(code)
}
