package drv

// tryReplay runs the counterexample of a replay file against the real code and reports whether the
// violation was confirmed there. It updates the "replay" entry of the file.
func tryReplay(opt Options, path string) bool {
	st, _ := Replay(opt, path)
	return st == "confirmed"
}
