package drv

import (
	"encoding/json"
	"os"
	"strings"
	"time"

	"govc/smt"
	"govc/sx"
)

// tryReplay runs the counterexample of a replay file against the real code and reports whether the violation was
// confirmed there. If the real VM faults on the first candidate (the model chose Null where the code needs bytes, a
// frequent gap between model and VM), the solver is asked once more for a counterexample whose byte-string
// parameters are not Null, and that one is replayed.
func tryReplay(opt Options, path string, q *smt.Query, params []string) bool {
	st, note := Replay(opt, path)
	if st == "confirmed" {
		return true
	}
	if q == nil || !strings.Contains(note, "faults") {
		return false
	}
	q2 := *q
	q2.Hyps = append([]*sx.T{}, q.Hyps...)
	n := 0
	for _, c := range q.Consts {
		if c.Sort == "NB" && strings.HasPrefix(c.Name, "p_") {
			q2.Hyps = append(q2.Hyps, sx.Not(sx.App("isnull", sx.Atom(c.Name))))
			n++
		}
	}
	if n == 0 {
		return false
	}
	res := smt.Check(&q2, smt.Options{Timeout: 20 * time.Second, QuantTimeout: 5 * time.Second})
	if res.Status != "sat" || res.Model == nil {
		return false
	}
	b, err := os.ReadFile(path)
	if err != nil {
		return false
	}
	var rc map[string]any
	if json.Unmarshal(b, &rc) != nil {
		return false
	}
	rc["first_candidate"] = map[string]any{"model": rc["model"], "replay": rc["replay"]}
	rc["model"] = res.Model
	rc["goal_skolems"] = res.GoalSkolems
	out, _ := json.MarshalIndent(rc, "", " ")
	os.WriteFile(path, append(out, '\n'), 0o644)
	st, _ = Replay(opt, path)
	return st == "confirmed"
}
