// Package drv is the check driver: it finds the contract modules kept in /repo behind the `verif`
// build tag, generates and discharges their obligations, compares with the committed baseline and
// the known findings, and writes evidence and replay files.
package drv

import (
	"fmt"
	"os"
	"path/filepath"
	"sort"
	"strings"

	"govc/spec"
)

// Module is one /*@ ... @*/ block of a verif_contracts*.go file.
type Module struct {
	PkgRel  string // ./contracts/balance
	PkgName string // balance
	File    string
	Spec    *spec.File
	Name    string // balance.core
	Src     string
}

// extractBlocks returns the /*@ ... @*/ blocks of a Go source text.
func extractBlocks(src string) []string {
	var out []string
	for {
		i := strings.Index(src, "/*@")
		if i < 0 {
			break
		}
		j := strings.Index(src[i:], "@*/")
		if j < 0 {
			break
		}
		out = append(out, src[i+3:i+j])
		src = src[i+j+3:]
	}
	return out
}

// Scan finds and parses all contract modules under root.
func Scan(root string) ([]*Module, error) {
	var files []string
	for _, pat := range []string{"common/verif_contracts*.go", "deploy/verif_contracts*.go", "contracts/*/verif_contracts*.go"} {
		m, _ := filepath.Glob(filepath.Join(root, pat))
		files = append(files, m...)
	}
	sort.Strings(files)
	var mods []*Module
	seen := map[string]bool{}
	for _, f := range files {
		b, err := os.ReadFile(f)
		if err != nil {
			return nil, err
		}
		rel, _ := filepath.Rel(root, filepath.Dir(f))
		for i, blk := range extractBlocks(string(b)) {
			sp, err := spec.Parse(blk)
			if err != nil {
				return nil, fmt.Errorf("%s block %d: %v", f, i, err)
			}
			if sp.Module == "" {
				return nil, fmt.Errorf("%s block %d: missing `module` directive", f, i)
			}
			m := &Module{PkgRel: "./" + filepath.ToSlash(rel), PkgName: filepath.Base(rel), File: f, Spec: sp, Src: blk}
			m.Name = m.PkgName + "." + sp.Module
			if seen[m.Name] {
				return nil, fmt.Errorf("%s: duplicate module %s", f, m.Name)
			}
			seen[m.Name] = true
			mods = append(mods, m)
		}
	}
	return mods, nil
}

func contains(xs []string, x string) bool {
	for _, y := range xs {
		if y == x {
			return true
		}
	}
	return false
}

// Select returns the modules serving a property followed by the modules they use (transitively).
func Select(all []*Module, prop string) (own []*Module, used []*Module) {
	byName := map[string]*Module{}
	for _, m := range all {
		byName[m.Name] = m
	}
	in := map[string]bool{}
	for _, m := range all {
		if contains(m.Spec.Props, prop) {
			own = append(own, m)
			in[m.Name] = true
		}
	}
	var visit func(m *Module)
	visit = func(m *Module) {
		for _, u := range m.Spec.UseMods {
			n := u[0] + "." + u[1]
			if um := byName[n]; um != nil && !in[n] {
				in[n] = true
				used = append(used, um)
				visit(um)
			}
		}
	}
	for _, m := range own {
		visit(m)
	}
	return
}
