// Package drv is the check driver: it finds the contract modules kept in /repo behind the `verif`
// build tag, generates and discharges their obligations, compares with the committed baseline and
// the known findings, and writes evidence and replay files.
package drv

import (
	"fmt"
	"os"
	"path/filepath"
	"regexp"
	"sort"
	"strings"

	"govc/spec"
)

// Module is one /*@ ... @*/ block of a verif_contracts*.go file.
type Module struct {
	PkgRel  string // ./contracts/balance
	PkgName string // balance
	File    string
	Spec    *spec.File
	Name    string // balance.core
	Src     string
}

// extractBlocks returns the /*@ ... @*/ blocks of a Go source text.
func extractBlocks(src string) []string {
	var out []string
	for {
		i := strings.Index(src, "/*@")
		if i < 0 {
			break
		}
		j := strings.Index(src[i:], "@*/")
		if j < 0 {
			break
		}
		out = append(out, src[i+3:i+j])
		src = src[i+j+3:]
	}
	return out
}

// Scan finds and parses all contract modules under root.
func Scan(root string) ([]*Module, error) {
	var files []string
	for _, pat := range []string{"common/verif_contracts*.go", "deploy/verif_contracts*.go", "contracts/*/verif_contracts*.go"} {
		m, _ := filepath.Glob(filepath.Join(root, pat))
		files = append(files, m...)
	}
	sort.Strings(files)
	var mods []*Module
	seen := map[string]bool{}
	for _, f := range files {
		b, err := os.ReadFile(f)
		if err != nil {
			return nil, err
		}
		rel, _ := filepath.Rel(root, filepath.Dir(f))
		for i, blk := range extractBlocks(string(b)) {
			sp, err := spec.Parse(blk)
			if err != nil {
				return nil, fmt.Errorf("%s block %d: %v", f, i, err)
			}
			if sp.Module == "" {
				return nil, fmt.Errorf("%s block %d: missing `module` directive", f, i)
			}
			m := &Module{PkgRel: "./" + filepath.ToSlash(rel), PkgName: filepath.Base(rel), File: f, Spec: sp, Src: blk}
			m.Name = m.PkgName + "." + sp.Module
			if seen[m.Name] {
				return nil, fmt.Errorf("%s: duplicate module %s", f, m.Name)
			}
			seen[m.Name] = true
			mods = append(mods, m)
		}
	}
	if err := checkViews(mods); err != nil {
		return nil, err
	}
	return mods, nil
}

var tagRe = regexp.MustCompile(`^(requires|ensures)\s*(\[[^\]]*\])?\s*`)

func normClause(t string) string {
	t = tagRe.ReplaceAllString(strings.TrimSpace(t), "")
	return strings.Join(strings.Fields(t), " ")
}

// checkViews: a contract declared `view <module>` is assumed where it is declared, but it must be a weaker view of the
// contract that is verified in the named module of the same package: no precondition dropped, no postcondition added.
func checkViews(mods []*Module) error {
	byName := map[string]*Module{}
	for _, m := range mods {
		byName[m.Name] = m
	}
	for _, m := range mods {
		for key, fs := range m.Spec.Funcs {
			if fs.ViewOf == "" {
				continue
			}
			om := byName[m.PkgName+"."+fs.ViewOf]
			if om == nil {
				return fmt.Errorf("%s: %s is declared a view of unknown module %s", m.Name, key, fs.ViewOf)
			}
			orig := om.Spec.Funcs[key]
			if orig == nil || orig.Trusted {
				return fmt.Errorf("%s: %s is declared a view of %s, which has no verified contract for it", m.Name, key, om.Name)
			}
			have := map[string]map[string]bool{"requires": {}, "ensures": {}}
			for _, c := range orig.Clauses {
				if have[c.Kind] != nil {
					have[c.Kind][normClause(c.Text)] = true
				}
			}
			mine := map[string]bool{}
			for _, c := range fs.Clauses {
				n := normClause(c.Text)
				switch c.Kind {
				case "requires":
					mine[n] = true
				case "ensures":
					if n != "true" && !have["ensures"][n] {
						return fmt.Errorf("%s: view of %s.%s claims `%s`, which is not a clause of the verified contract", m.Name, om.Name, key, n)
					}
				}
			}
			for r := range have["requires"] {
				if !mine[r] {
					return fmt.Errorf("%s: view of %s.%s drops the precondition `%s`", m.Name, om.Name, key, r)
				}
			}
			if fs.Pure && !orig.Pure {
				return fmt.Errorf("%s: view of %s.%s claims purity, the verified contract does not", m.Name, om.Name, key)
			}
		}
	}
	return nil
}

func contains(xs []string, x string) bool {
	for _, y := range xs {
		if y == x {
			return true
		}
	}
	return false
}

// Select returns the modules serving a property followed by the modules they use (transitively).
func Select(all []*Module, prop string) (own []*Module, used []*Module) {
	byName := map[string]*Module{}
	for _, m := range all {
		byName[m.Name] = m
	}
	in := map[string]bool{}
	for _, m := range all {
		if contains(m.Spec.Props, prop) {
			own = append(own, m)
			in[m.Name] = true
		}
	}
	var visit func(m *Module)
	visit = func(m *Module) {
		for _, u := range m.Spec.UseMods {
			n := u[0] + "." + u[1]
			if um := byName[n]; um != nil && !in[n] {
				in[n] = true
				used = append(used, um)
				visit(um)
			}
		}
		for _, r := range m.Spec.Relies {
			n := r[0] + "." + r[1]
			if um := byName[n]; um != nil && !in[n] {
				in[n] = true
				used = append(used, um)
				visit(um)
			}
		}
	}
	for _, m := range own {
		visit(m)
	}
	return
}
