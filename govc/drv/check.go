package drv

import (
	"bufio"
	"encoding/json"
	"fmt"
	"govc/sym"
	"os"
	"path/filepath"
	"sort"
	"strings"
	"time"
)

// Finding is one line of known_findings.jsonl.
type Finding struct {
	Status     string `json:"status"` // open | fixed
	Property   string `json:"property"`
	Finding    string `json:"finding,omitempty"`
	Obligation string `json:"obligation,omitempty"`
	Commit     string `json:"commit,omitempty"`
	What       string `json:"what"`
	Witness    string `json:"witness,omitempty"`
}

func loadFindings(verif string) ([]Finding, error) {
	f, err := os.Open(filepath.Join(verif, "known_findings.jsonl"))
	if err != nil {
		if os.IsNotExist(err) {
			return nil, nil
		}
		return nil, err
	}
	defer f.Close()
	var out []Finding
	sc := bufio.NewScanner(f)
	sc.Buffer(make([]byte, 1<<20), 1<<20)
	for sc.Scan() {
		ln := strings.TrimSpace(sc.Text())
		if ln == "" || strings.HasPrefix(ln, "#") || strings.HasPrefix(ln, "//") {
			continue
		}
		var fd Finding
		if err := json.Unmarshal([]byte(ln), &fd); err != nil {
			return nil, fmt.Errorf("known_findings.jsonl: %v", err)
		}
		out = append(out, fd)
	}
	return out, nil
}

// Baseline is the committed list of obligations discharged on the pinned tree, per property.
type Baseline map[string]map[string]string // property -> obligation -> expected (discharged | ok | known-finding:<F>)

func loadBaseline(verif string) (Baseline, error) {
	b, err := os.ReadFile(filepath.Join(verif, "baseline", "obligations.json"))
	if err != nil {
		if os.IsNotExist(err) {
			return Baseline{}, nil
		}
		return nil, err
	}
	bl := Baseline{}
	if err := json.Unmarshal(b, &bl); err != nil {
		return nil, err
	}
	return bl, nil
}

func relevant(o *Obl, prop string) bool {
	if o.Support {
		return true
	}
	return len(o.Tags) == 0 || contains(o.Tags, prop)
}

type violation struct {
	Obl    *Obl
	Reason string
}

// Verdict of one property check.
type Verdict struct {
	Prop        string
	Obligations int
	Discharged  int
	Violations  []violation
	Known       []string // KNOWN-FINDING lines
	Undecided   []*Obl
	Missing     []string
	Counted     []*Obl
	Canaries    int
	Vacuous     int
	Findings    []Finding
}

func sanitizeName(s string) string {
	return strings.NewReplacer("/", "_", "#", "-", ":", "_", " ", "_", "*", "").Replace(s)
}

// Decide applies baseline and known findings to the results of a run.
func Decide(opt Options, rr *RunResult, bl Baseline, findings []Finding) *Verdict {
	v := &Verdict{Prop: opt.Prop}
	base := bl[opt.Prop]
	open := map[string]Finding{}
	openElsewhere := map[string]Finding{} // findings of other properties: they matter here only in used (support) modules
	for _, f := range findings {
		if f.Status == "open" && f.Property == opt.Prop {
			open[f.Finding] = f
		} else if f.Status == "open" {
			openElsewhere[f.Finding] = f
		}
	}
	byName := map[string]*Obl{}
	exceptOf := map[string][]*Obl{} // full obligation -> its .except forms
	for _, o := range rr.Obls {
		byName[o.Name] = o
		if o.Full != "" {
			exceptOf[o.Full] = append(exceptOf[o.Full], o)
		}
	}
	generated := map[string]bool{}
	for _, o := range rr.Obls {
		if !relevant(o, opt.Prop) {
			continue
		}
		generated[o.Name] = true
		_, inBase := base[o.Name]
		switch {
		case o.Kind == "canary" || o.Kind == "axioms":
			v.Canaries++
			if o.Status == "vacuous" {
				v.Vacuous++
				if inBase || o.Kind == "axioms" {
					why := "the assumptions of " + o.Func + " prove false: no normal exit is reachable under its precondition (code changed to always fault, or the contract became contradictory)"
					if o.Kind == "axioms" {
						why = "the axioms of the module are inconsistent"
					}
					v.Violations = append(v.Violations, violation{o, why})
				} else {
					v.Undecided = append(v.Undecided, o)
				}
			}
		case o.Full != "":
			full := byName[o.Full]
			if full != nil && full.Status == "discharged" {
				continue // the finding no longer exists: the restricted form is redundant
			}
			v.Obligations++
			v.Counted = append(v.Counted, o)
			if o.Status == "discharged" {
				v.Discharged++
			} else if inBase {
				v.Violations = append(v.Violations, violation{o, "the clause fails outside the region of known finding " + o.Finding + " as well (" + o.Detail + ")"})
			} else {
				v.Undecided = append(v.Undecided, o)
			}
		default:
			if o.Status == "discharged" {
				v.Obligations++
				v.Discharged++
				v.Counted = append(v.Counted, o)
				continue
			}
			// failed: is it covered by a listed open finding whose restricted form holds?
			covered := false
			for _, ex := range exceptOf[o.Name] {
				if f, ok := open[ex.Finding]; ok && ex.Status == "discharged" {
					covered = true
					v.Known = append(v.Known, fmt.Sprintf("KNOWN-FINDING: property=%s %s [%s, obligation %s]", opt.Prop, f.What, f.Finding, o.Name))
					v.Findings = append(v.Findings, f)
				}
			}
			if !covered && o.Support {
				// a used module's clause with a known finding of another property: this property's modules assume
				// only the restricted form, which holds; the finding is reported by its own property's check
				for _, ex := range exceptOf[o.Name] {
					if _, ok := openElsewhere[ex.Finding]; ok && ex.Status == "discharged" {
						covered = true
					}
				}
			}
			if covered {
				continue
			}
			v.Obligations++
			v.Counted = append(v.Counted, o)
			if inBase || len(exceptOf[o.Name]) > 0 {
				v.Violations = append(v.Violations, violation{o, "obligation not discharged (" + o.Detail + ")"})
			} else {
				v.Undecided = append(v.Undecided, o)
			}
		}
	}
	if opt.OnlyModule == "" && opt.OnlyFunc == "" {
		var names []string
		for n := range base {
			names = append(names, n)
		}
		sort.Strings(names)
		for _, n := range names {
			if !generated[n] {
				if strings.Contains(n, ".except.") {
					// restricted forms exist only while the finding does
					continue
				}
				v.Missing = append(v.Missing, n)
			}
		}
	}
	return v
}

// WriteBaseline records the obligations discharged by this run for the property.
func WriteBaseline(opt Options, rr *RunResult, v *Verdict) error {
	bl, err := loadBaseline(opt.Verif)
	if err != nil {
		return err
	}
	m := map[string]string{}
	for _, o := range rr.Obls {
		if !relevant(o, opt.Prop) {
			continue
		}
		switch {
		case o.Kind == "canary" || o.Kind == "axioms":
			if o.Status == "ok" {
				m[o.Name] = "ok"
			}
		case o.Status == "discharged":
			m[o.Name] = "discharged"
		}
	}
	bl[opt.Prop] = m
	os.MkdirAll(filepath.Join(opt.Verif, "baseline"), 0o755)
	b, _ := json.MarshalIndent(bl, "", " ")
	if err := os.WriteFile(filepath.Join(opt.Verif, "baseline", "obligations.json"), append(b, '\n'), 0o644); err != nil {
		return err
	}
	// parameters and locals of the functions under contract, in declaration order (rebinding of renamed variables)
	loc := loadLocals(opt.Verif)
	for k, l := range rr.Locals {
		loc[k] = l
	}
	lb, _ := json.MarshalIndent(loc, "", " ")
	return os.WriteFile(filepath.Join(opt.Verif, "baseline", "locals.json"), append(lb, '\n'), 0o644)
}

func loadLocals(verif string) map[string][]sym.LocalInfo {
	out := map[string][]sym.LocalInfo{}
	if b, err := os.ReadFile(filepath.Join(verif, "baseline", "locals.json")); err == nil {
		json.Unmarshal(b, &out)
	}
	return out
}

// replayFile writes the replay case of a violated obligation and returns its path relative to /verif.
func replayFile(opt Options, viol violation, rr *RunResult) string {
	dir := filepath.Join(opt.Verif, "replays", opt.Prop)
	os.MkdirAll(dir, 0o755)
	name := "missing"
	rc := map[string]any{"property": opt.Prop, "reason": viol.Reason, "root": opt.Root, "tier": opt.Tier, "generation_errors": rr.GenErrors}
	if o := viol.Obl; o != nil {
		name = sanitizeName(o.Name)
		rc["obligation"] = o.Name
		rc["module"] = o.Module
		rc["func"] = o.Func
		rc["clause"] = o.Text
		rc["tags"] = o.Tags
		rc["solver_status"] = o.Detail
		rc["backends"] = o.Backends
		raw := o.Raw
		if len(raw) > 6000 {
			raw = raw[:6000] + "…"
		}
		rc["solver_output"] = raw
		if o.Model != nil {
			rc["model"] = o.Model
			rc["goal_skolems"] = o.Skolems
		}
		if o.rep != nil {
			rc["params"] = o.rep.Params
			rc["results"] = o.rep.Results
			rc["exported"] = o.rep.Exported
			rc["recv"] = o.rep.Recv
			rc["file"] = relTo(opt.Root, o.rep.File)
		}
		rc["replay"] = map[string]any{"status": "not-attempted"}
	} else {
		name = sanitizeName(viol.Reason)
		if len(name) > 80 {
			name = name[:80]
		}
	}
	p := filepath.Join(dir, name+".json")
	b, _ := json.MarshalIndent(rc, "", " ")
	os.WriteFile(p, append(b, '\n'), 0o644)
	rel, _ := filepath.Rel(opt.Verif, p)
	return rel
}

// Evidence is the JSON written to evidence/<id>.json.
type Evidence struct {
	PropertyID  string         `json:"property_id"`
	Tier        string         `json:"tier"`
	Seed        int            `json:"seed"`
	Level       string         `json:"level"`
	Coverage    map[string]any `json:"coverage"`
	Assumptions []string       `json:"assumptions"`
	WallS       float64        `json:"wall_s"`
	Violations  int            `json:"violations"`
}

var trustedBase = []string{
	"A1 NeoVM transaction atomicity: a FAULT/ABORT reverts all storage changes and notifications",
	"A3 storage is a per-contract byte-string map; storage.Find iterates a snapshot taken at call time in ascending bytewise key order",
	"A4 std.Serialize/Deserialize and the integer<->bytes conversions are mutually inverse; CONVERT semantics as in DESIGN 4.1",
	"A6 CheckWitness is a fixed predicate during a transaction",
	"A7 a call to another contract does not change the caller's storage",
	"A8 the neo-go compiler (resp. the Go compiler) implements the dialect semantics of DESIGN section 4 (integers are mathematical in neovm: VM BigIntegers)",
	"A9 soundness of z3 4.8.12 / z3 5.1.0 / cvc5 1.0.3 and correctness of govc's VC generation (guarded by canaries and the must-fail corpus)",
	"A13 interop functions without effects are deterministic functions of the content of their arguments; program values are well formed",
}

// WriteEvidence writes evidence/<id>.json.
func WriteEvidence(opt Options, rr *RunResult, v *Verdict, wall float64, level string, extra map[string]any) error {
	cov := map[string]any{}
	cov["obligations"] = v.Obligations
	cov["discharged"] = v.Discharged
	cov["checker_cmd"] = fmt.Sprintf("./check %s %s", opt.Prop, opt.Tier)
	tb := append([]string{}, trustedBase...)
	tb = append(tb, rr.Trusted...)
	tb = append(tb, rr.Axioms...)
	tb = append(tb, rr.Inputs...)
	tb = append(tb, rr.Relies...)
	tb = append(tb, "alias scan: common.Vote, nns.Transfer, nns.SetAdmin are exempted by name after inspection (DESIGN.md 2.3); the scan is syntactic and conservative")
	{ // no duplicates (a module may be generated as own and as used module)
		seen := map[string]bool{}
		var u []string
		for _, x := range tb {
			if !seen[x] {
				seen[x] = true
				u = append(u, x)
			}
		}
		tb = u
	}
	cov["trusted_base"] = tb
	cov["modules"] = rr.Modules
	{ // cover goals: how many were decided by a witness, how many only not refuted
		wit, weak := 0, 0
		for _, o := range rr.Obls {
			if o.Kind == "cover" && o.Status == "discharged" && relevant(o, opt.Prop) {
				if strings.Contains(o.Detail, "witness found") {
					wit++
				} else {
					weak++
				}
			}
		}
		if wit+weak > 0 {
			cov["cover_goals"] = map[string]int{"witness_found": wit, "not_refuted_only": weak}
		}
	}
	cov["functions_under_contract"] = rr.Funcs
	backends := map[string]int{}
	var solverS, slowest float64
	kinds := map[string]int{}
	for _, o := range v.Counted {
		for k, n := range o.Backends {
			backends[k] += n
		}
		solverS += o.Seconds
		if o.Status == "discharged" && o.Slowest > slowest {
			slowest = o.Slowest
		}
		kinds[o.Kind]++
	}
	cov["backends"] = backends
	cov["solver_seconds"] = round2(solverS)
	cov["slowest_discharged_query_s"] = round2(slowest)
	cov["obligation_kinds"] = kinds
	cov["vacuity"] = map[string]any{"canaries": v.Canaries, "vacuous": v.Vacuous}
	cov["load_seconds"] = round2(rr.LoadSecs)
	var samples []map[string]any
	for i, o := range v.Counted {
		if i%max(1, len(v.Counted)/6) == 0 && len(samples) < 8 {
			samples = append(samples, map[string]any{"obligation": o.Name, "goal": o.Text, "status": o.Status, "queries": o.Queries, "smt_bytes": o.Size, "backends": o.Backends, "seconds": round2(o.Seconds)})
		}
	}
	if len(samples) == 0 {
		samples = append(samples, map[string]any{"note": "no obligation was generated"})
	}
	cov["samples"] = samples
	var und []string
	for _, o := range v.Undecided {
		und = append(und, o.Name+" ("+o.Detail+")")
	}
	cov["undecided_not_in_baseline"] = und
	var kf []map[string]any
	for _, f := range v.Findings {
		kf = append(kf, map[string]any{"finding": f.Finding, "obligation": f.Obligation, "what": f.What})
	}
	cov["known_findings"] = kf
	cov["generation_errors"] = rr.GenErrors
	for k, val := range extra {
		cov[k] = val
	}
	if level != "proof" {
		cov["explanation"] = extra["explanation"]
	}
	ev := Evidence{PropertyID: opt.Prop, Tier: opt.Tier, Seed: opt.Seed, Level: level, Coverage: cov, WallS: round2(wall), Violations: len(v.Violations) + len(v.Missing)}
	ev.Assumptions = append(ev.Assumptions, tb...)
	os.MkdirAll(filepath.Join(opt.Verif, "evidence"), 0o755)
	b, _ := json.MarshalIndent(ev, "", " ")
	return os.WriteFile(filepath.Join(opt.Verif, "evidence", opt.Prop+".json"), append(b, '\n'), 0o644)
}

func round2(x float64) float64 { return float64(int(x*100+0.5)) / 100 }

// Check runs one property check end to end and returns the exit code.
func Check(opt Options, writeBaseline bool) int {
	t0 := time.Now()
	all, err := Scan(opt.Root)
	if err != nil {
		fmt.Println("ENGINE-ERROR:", err)
		return 2
	}
	if !writeBaseline {
		sym.BaselineLocals = loadLocals(opt.Verif)
	}
	own, used := Select(all, opt.Prop)
	if len(own) == 0 {
		fmt.Printf("ENGINE-ERROR: no contract module in %s serves property %s\n", opt.Root, opt.Prop)
		return 2
	}
	rr := Run(opt, own, used, all)
	if len(rr.Errors) > 0 {
		for _, e := range rr.Errors {
			fmt.Println("ENGINE-ERROR:", e)
		}
		return 2
	}
	bl, err := loadBaseline(opt.Verif)
	if err != nil {
		fmt.Println("ENGINE-ERROR:", err)
		return 2
	}
	findings, err := loadFindings(opt.Verif)
	if err != nil {
		fmt.Println("ENGINE-ERROR:", err)
		return 2
	}
	v := Decide(opt, rr, bl, findings)
	if writeBaseline {
		v.Missing = nil
	}
	// (undecided queries are retried inside Run, per query and within a wall-clock budget)
	printReport(opt, rr, v)
	for _, o := range rr.Obls {
		if o.Detail == "error" {
			raw := o.Raw
			if len(raw) > 400 {
				raw = raw[:400]
			}
			fmt.Printf("ENGINE-ERROR: solver rejected a query of %s: %s\n", o.Name, strings.TrimSpace(raw))
			return 2
		}
	}
	if writeBaseline {
		if err := WriteBaseline(opt, rr, v); err != nil {
			fmt.Println("ENGINE-ERROR:", err)
			return 2
		}
		fmt.Printf("baseline written for %s\n", opt.Prop)
	}
	code := 0
	for _, k := range v.Known {
		fmt.Println(k)
	}
	for _, vi := range v.Violations {
		p := replayFile(opt, vi, rr)
		suffix := " no-failing-input-found"
		if !opt.NoReplay && vi.Obl != nil && vi.Obl.Model != nil {
			if confirmed := tryReplay(opt, filepath.Join(opt.Verif, p), vi.Obl.worstQ, nil); confirmed {
				suffix = ""
			}
		}
		fmt.Printf("VIOLATION property=%s replay=%s%s\n", opt.Prop, p, suffix)
		fmt.Printf("  obligation %s: %s\n  clause: %s\n", vi.Obl.Name, vi.Reason, vi.Obl.Text)
		code = 1
	}
	if len(v.Missing) > 0 {
		why := "obligations of the committed baseline were not generated from this tree (contract-out-of-date or code outside the verifier's subset): " + strings.Join(v.Missing, ", ")
		if len(rr.GenErrors) > 0 {
			why += "; generation errors: " + strings.Join(rr.GenErrors, "; ")
		}
		p := replayFile(opt, violation{nil, why}, rr)
		fmt.Printf("VIOLATION property=%s replay=%s no-failing-input-found\n", opt.Prop, p)
		fmt.Printf("  %s\n", why)
		code = 1
	}
	level := "proof"
	if !opt.NoEvidence && opt.OnlyModule == "" && opt.OnlyFunc == "" {
		if err := WriteEvidence(opt, rr, v, time.Since(t0).Seconds(), level, nil); err != nil {
			fmt.Println("ENGINE-ERROR:", err)
			return 2
		}
	}
	if v.Obligations == 0 && code == 0 {
		fmt.Println("ENGINE-ERROR: zero obligations were generated (vacuous check)")
		return 2
	}
	if n := len(bl[opt.Prop]); n == 0 && !writeBaseline && opt.OnlyModule == "" && opt.OnlyFunc == "" {
		fmt.Println("ENGINE-ERROR: no committed baseline for", opt.Prop)
		return 2
	}
	return code
}

func printReport(opt Options, rr *RunResult, v *Verdict) {
	for _, o := range rr.Obls {
		if !relevant(o, opt.Prop) {
			continue
		}
		if opt.Verbose || (o.Status != "discharged" && o.Status != "ok") {
			var bs []string
			for k, n := range o.Backends {
				bs = append(bs, fmt.Sprintf("%s:%d", k, n))
			}
			sort.Strings(bs)
			fmt.Printf("  %-60s %-3d q %6.2fs %-10s %s %v %s\n", o.Name, o.Queries, o.Seconds, o.Status, o.Detail, o.Tags, strings.Join(bs, " "))
			if o.Status == "failed" {
				fmt.Printf("      clause: %s\n", o.Text)
				if o.Model != nil {
					var ks []string
					for k := range o.Model {
						ks = append(ks, k)
					}
					sort.Strings(ks)
					for i, k := range ks {
						if i >= 40 {
							break
						}
						fmt.Printf("      %s = %s\n", k, o.Model[k])
					}
				}
			}
		}
	}
	for _, e := range rr.GenErrors {
		fmt.Println("  generation error:", e)
	}
	for _, o := range v.Undecided {
		fmt.Printf("  UNDECIDED (not in baseline): %s (%s)\n", o.Name, o.Detail)
	}
	fmt.Printf("property %s [%s]: modules %v; %d obligations, %d discharged, %d violations, %d known findings, %d canaries (%d vacuous); load %.1fs\n",
		opt.Prop, opt.Tier, rr.Modules, v.Obligations, v.Discharged, len(v.Violations)+len(v.Missing), len(v.Known), v.Canaries, v.Vacuous, rr.LoadSecs)
}
