package drv

import (
	"fmt"
	"os"
	"sort"
	"strings"
	"sync"
	"time"

	"golang.org/x/tools/go/packages"

	"govc/smt"
	"govc/spec"
	"govc/sym"
)

// Options of one check run.
type Options struct {
	Root       string // repository under verification
	Verif      string // /verif (baseline, known findings, evidence, replays)
	Prop       string
	NoEvidence bool   // development runs (a single module or function) must not overwrite the evidence file
	Tier       string // quick | thorough
	Seed       int
	Timeout    time.Duration
	OnlyModule string
	OnlyFunc   string
	Verbose    bool
	DumpDir    string
	NoReplay   bool
}

// Obl is the verdict on one obligation.
type Obl struct {
	Name     string // module:pkg.Func#goal
	Module   string
	Func     string
	Tags     []string
	Text     string
	Kind     string // ensures | inv | loop | call | nofault | lemma | canary | witness | safe | axioms
	Status   string // discharged | failed | vacuous | ok (canary)
	Detail   string // sat | unknown | timeout ...
	Queries  int
	Seconds  float64
	Backends map[string]int
	Model    map[string]string
	Raw      string
	Finding  string
	Full     string
	Slowest  float64
	Size     int
	Skolems  []smt.SkInfo
	Support  bool // belongs to a used module (supporting contract)
	Weak     bool // the counterexample satisfies only an instantiated (ground) query; the quantified query was inconclusive
	rep      *sym.FuncReport
	worstQ   *smt.Query
}

// FuncInfo describes one function under contract for the evidence.
type FuncInfo struct {
	Module      string `json:"module"`
	Func        string `json:"func"`
	File        string `json:"file"`
	Line        int    `json:"line"`
	SrcSHA256   string `json:"src_sha256"`
	Clauses     int    `json:"clauses"`
	Exits       int    `json:"normal_exits"`
	FaultExits  int    `json:"fault_exits"`
	Obligations int    `json:"obligations"`
	Trusted     bool   `json:"trusted,omitempty"`
	Error       string `json:"error,omitempty"`
}

// RunResult is everything one run produced.
type RunResult struct {
	Obls      []*Obl
	Funcs     []FuncInfo
	Errors    []string // engine errors (exit 2)
	GenErrors []string // functions whose obligations could not be generated
	LoadSecs  float64
	Modules   []string
	Trusted   []string
	Axioms    []string
	Inputs    []string                   // preconditions of exported methods: input assumptions granted by the property's quantifier text
	Relies    []string                   // package invariants proved in one module and assumed on entry in another
	Locals    map[string][]sym.LocalInfo // parameters and locals of the functions under contract (for the baseline)
}

func kindOf(name string) string {
	i := strings.LastIndex(name, "#")
	if strings.Contains(name, ":lemma.") || strings.HasPrefix(name, "lemma.") {
		return "lemma"
	}
	if i < 0 {
		return "other"
	}
	g := name[i+1:]
	switch {
	case strings.HasPrefix(g, "ensures"):
		return "ensures"
	case strings.HasPrefix(g, "inv."):
		return "inv"
	case strings.HasPrefix(g, "loop"):
		return "loop"
	case strings.HasPrefix(g, "call."):
		return "call"
	case strings.HasPrefix(g, "nofault"):
		return "nofault"
	case g == "canary":
		return "canary"
	case strings.HasPrefix(g, "cover"):
		return "cover"
	case strings.HasPrefix(g, "witness"):
		return "witness"
	case strings.HasPrefix(g, "safe"):
		return "safe"
	case g == "axioms-consistent":
		return "axioms"
	}
	return "other"
}

// Load loads the packages of the given modules (plus ./common) with the verif tag.
func Load(root string, rels []string) ([]*packages.Package, error) {
	cfg := &packages.Config{Mode: packages.NeedName | packages.NeedImports | packages.NeedDeps | packages.NeedTypes | packages.NeedSyntax | packages.NeedTypesInfo | packages.NeedFiles,
		Dir: root, BuildFlags: []string{"-tags=verif"},
		Env: append(os.Environ(), "GOFLAGS=-mod=mod", "GOPROXY=off", "GOSUMDB=off", "GOTOOLCHAIN=local")}
	pkgs, err := packages.Load(cfg, rels...)
	if err != nil {
		return nil, err
	}
	var errs []string
	packages.Visit(pkgs, nil, func(p *packages.Package) {
		if strings.Contains(p.PkgPath, "neofs-contract") {
			for _, e := range p.Errors {
				errs = append(errs, e.Error())
			}
		}
	})
	if len(errs) > 0 {
		return nil, fmt.Errorf("the tree does not type-check, nothing is verified: %s", strings.Join(errs, "; "))
	}
	seen := map[string]bool{}
	var all []*packages.Package
	var add func(p *packages.Package)
	add = func(p *packages.Package) {
		if seen[p.PkgPath] || !strings.Contains(p.PkgPath, "neofs-contract") {
			return
		}
		seen[p.PkgPath] = true
		all = append(all, p)
		for _, i := range p.Imports {
			add(i)
		}
	}
	for _, p := range pkgs {
		add(p)
	}
	sort.Slice(all, func(i, j int) bool { return all[i].PkgPath < all[j].PkgPath })
	return all, nil
}

func pkgByRel(pkgs []*packages.Package, rel string) *packages.Package {
	suffix := strings.TrimPrefix(rel, ".")
	for _, p := range pkgs {
		if strings.HasSuffix(p.PkgPath, suffix) {
			return p
		}
	}
	return nil
}

type job struct {
	obl *sym.Obligation
	q   *smt.Query
	res smt.Result
	mod *Module
	rep *sym.FuncReport
}

// genModule generates the obligations of one module. For a supporting (used) module `only` names the functions whose
// contracts the check actually rests on (nil: the module's own check - everything); applied collects the contracts applied.
func genModule(pkgs []*packages.Package, m *Module, byName map[string]*Module, opt Options, rr *RunResult, only map[string]bool, done map[string]bool, applied map[string]bool) []*job {
	var jobs []*job
	target := pkgByRel(pkgs, m.PkgRel)
	if target == nil {
		rr.Errors = append(rr.Errors, fmt.Sprintf("module %s: package %s not loaded", m.Name, m.PkgRel))
		return nil
	}
	e := sym.New(pkgs)
	e.Go64 = m.Spec.Dialect == "go64"
	e.Specs[target.PkgPath] = m.Spec
	for _, u := range m.Spec.UseMods {
		um := byName[u[0]+"."+u[1]]
		if um == nil {
			rr.Errors = append(rr.Errors, fmt.Sprintf("module %s uses unknown module %s.%s", m.Name, u[0], u[1]))
			continue
		}
		up := pkgByRel(pkgs, um.PkgRel)
		if up == nil {
			rr.Errors = append(rr.Errors, fmt.Sprintf("module %s: package of used module %s not loaded", m.Name, um.Name))
			continue
		}
		if up == target {
			// a module of the same package: its definitions and contracts become visible here; the contracts are
			// used at call sites only (they are verified in their own module)
			merged, err := mergeSpec(e.Specs[target.PkgPath], um.Spec)
			if err != nil {
				rr.Errors = append(rr.Errors, fmt.Sprintf("module %s: %v", m.Name, err))
				continue
			}
			e.Specs[target.PkgPath] = merged
			continue
		}
		if prev := e.Specs[up.PkgPath]; prev != nil {
			// a second used module of the same foreign package: the contracts and definitions of both are visible
			merged, err := mergeSpec(prev, um.Spec)
			if err != nil {
				rr.Errors = append(rr.Errors, fmt.Sprintf("module %s: %v", m.Name, err))
				continue
			}
			for k, f := range merged.Funcs {
				c := *f
				c.Imported = false
				merged.Funcs[k] = &c
			}
			e.Specs[up.PkgPath] = merged
			continue
		}
		e.Specs[up.PkgPath] = um.Spec
	}
	for _, r := range m.Spec.Relies {
		um := byName[r[0]+"."+r[1]]
		if um == nil || pkgByRel(pkgs, um.PkgRel) != target {
			rr.Errors = append(rr.Errors, fmt.Sprintf("module %s relies on %s.%s: not a module of the same package", m.Name, r[0], r[1]))
			continue
		}
		found := false
		for _, inv := range um.Spec.Invs {
			if inv.Name == r[2] {
				found = true
				if e.Relied == nil {
					e.Relied = map[string][]sym.RelyInv{}
				}
				// read with the definitions of the proving module; names it takes from modules it uses itself (codecs)
				// are filled in from what is visible here
				file := um.Spec
				if merged, err := mergeSpec(um.Spec, e.Specs[target.PkgPath]); err == nil {
					file = merged
				}
				e.Relied[target.PkgPath] = append(e.Relied[target.PkgPath], sym.RelyInv{From: um.Name, Inv: inv, File: file})
				rr.Relies = append(rr.Relies, fmt.Sprintf("module %s assumes on entry of exported methods the package invariant %s, proved for every exported method in module %s (its obligations are part of this check)", m.Name, inv.Name, um.Name))
			}
		}
		if !found {
			rr.Errors = append(rr.Errors, fmt.Sprintf("module %s relies on unknown invariant %s of %s", m.Name, r[2], um.Name))
		}
	}
	for _, p := range pkgs {
		if err := e.LoadGlobals(p.PkgPath); err != nil && opt.Verbose {
			fmt.Fprintln(os.Stderr, "warning:", err)
		}
	}
	mk := func(rep *sym.FuncReport) {
		for _, o := range rep.Obligations {
			o.Name = m.Spec.Module + ":" + o.Name
			if o.Full != "" {
				o.Full = m.Spec.Module + ":" + o.Full
			}
			for _, q := range o.Queries {
				q.Name = m.Spec.Module + ":" + q.Name
				jobs = append(jobs, &job{obl: o, q: q, mod: m, rep: rep})
			}
		}
	}
	support := only != nil
	defer func() {
		for k := range e.Applied {
			applied[k] = true
		}
	}()
	if len(m.Spec.Witness) > 0 && !support {
		reps, errs := sweepModule(pkgs, target, m, opt)
		for _, r := range reps {
			mk(r)
			rr.Funcs = append(rr.Funcs, FuncInfo{Module: m.Name, Func: r.Func, File: relTo(opt.Root, r.File), Line: r.Line, SrcSHA256: r.SrcHash, Clauses: r.Clauses, Exits: r.Exits, FaultExits: r.FaultExits, Obligations: len(r.Obligations)})
		}
		rr.GenErrors = append(rr.GenErrors, errs...)
	}
	for _, key := range e.SpecFuncs(target.PkgPath) {
		if opt.OnlyFunc != "" && key != opt.OnlyFunc {
			continue
		}
		full := target.Types.Name() + "." + key
		if support && (!only[full] || done[m.Name+":"+full]) {
			continue // a supporting module: only the contracts this check rests on are verified here
		}
		done[m.Name+":"+full] = true
		rep, err := e.VerifyFunc(target.PkgPath, key, true)
		if err != nil {
			rr.GenErrors = append(rr.GenErrors, fmt.Sprintf("%s: %v", m.Name, err))
			rr.Funcs = append(rr.Funcs, FuncInfo{Module: m.Name, Func: target.Types.Name() + "." + key, Error: err.Error()})
			continue
		}
		fi := FuncInfo{Module: m.Name, Func: rep.Func, File: relTo(opt.Root, rep.File), Line: rep.Line, SrcSHA256: rep.SrcHash, Clauses: rep.Clauses, Exits: rep.Exits, FaultExits: rep.FaultExits, Trusted: rep.Trusted}
		for _, o := range rep.Obligations {
			if !strings.HasSuffix(o.Name, "#canary") {
				fi.Obligations++
			}
		}
		rr.Funcs = append(rr.Funcs, fi)
		if rep.Trusted {
			if fs := m.Spec.Funcs[key]; fs != nil && fs.ViewOf != "" {
				rr.Trusted = append(rr.Trusted, m.Name+": "+rep.Func+" (weaker view of the contract verified in module "+m.PkgName+"."+fs.ViewOf+"; clause subset checked)")
			} else {
				rr.Trusted = append(rr.Trusted, m.Name+": "+rep.Func+" (contract assumed, not verified)")
			}
		}
		if fs := m.Spec.Funcs[key]; fs != nil && fs.WideInt {
			rr.Inputs = append(rr.Inputs, "machine arithmetic treated as mathematical in "+m.Name+": "+rep.Func+": + - * on 64-bit integers (element counters and sums of lengths) is not checked for overflow; narrower integer types are")
		}
		if rr.Locals == nil {
			rr.Locals = map[string][]sym.LocalInfo{}
		}
		rr.Locals[rep.Func] = e.LocalsOf(target.PkgPath, key)
		if fs := e.Specs[target.PkgPath].Funcs[key]; fs != nil && !strings.Contains(key, ".") && key != "" && key[0] >= 'A' && key[0] <= 'Z' {
			for _, c := range fs.Clauses {
				if c.Kind == "requires" {
					rr.Inputs = append(rr.Inputs, "input assumption of "+m.Name+": "+rep.Func+": "+c.Text)
				}
			}
		}
		mk(rep)
	}
	if len(m.Spec.Invs) > 0 && !support {
		// induction over call histories: every exported method of the package preserves the module's invariants,
		// also those that have no contract in this module
		se := sym.New(pkgs)
		se.Sweep = true
		for _, p := range pkgs {
			se.LoadGlobals(p.PkgPath)
		}
		// contracts of used modules of the same package stand for the methods they cover (see InvMethod)
		if merged := e.Specs[target.PkgPath]; merged != nil {
			se.Specs[target.PkgPath] = merged
		}
		for k, sp := range e.Specs { // contracts of used modules of other packages (common)
			if se.Specs[k] == nil {
				se.Specs[k] = sp
			}
		}
		for _, fn := range se.ExportedFuncs(target.PkgPath) {
			if fs, has := m.Spec.Funcs[fn.Name()]; (has && !fs.InputOnly) || fn.Name() == "_deploy" {
				continue
			}
			if fs, has := m.Spec.Funcs[fn.Name()]; has && fs.InputOnly {
				for _, c := range fs.Clauses {
					if c.Kind == "requires" {
						rr.Inputs = append(rr.Inputs, "input assumption of "+m.Name+": "+target.Types.Name()+"."+fn.Name()+" (invariant sweep): "+c.Text)
					}
				}
			}
			if opt.OnlyFunc != "" && fn.Name() != opt.OnlyFunc {
				continue
			}
			rep, err := se.InvMethod(target.PkgPath, fn, e.Specs[target.PkgPath])
			for k := range se.Applied {
				applied[k] = true
			}
			if err != nil {
				rr.GenErrors = append(rr.GenErrors, fmt.Sprintf("%s: invariants over %s: %v", m.Name, fn.Name(), err))
				continue
			}
			rr.Funcs = append(rr.Funcs, FuncInfo{Module: m.Name, Func: rep.Func + " (invariants only)", File: relTo(opt.Root, rep.File), Line: rep.Line, SrcSHA256: rep.SrcHash, Exits: rep.Exits, FaultExits: rep.FaultExits, Obligations: len(rep.Obligations)})
			mk(rep)
		}
	}
	if opt.OnlyFunc == "" && !done[m.Name+":lemmas"] {
		done[m.Name+":lemmas"] = true
		for _, pp := range pkgs { // the struct sorts the lemmas and axioms may mention
			if e.Specs[pp.PkgPath] != nil {
				e.RegisterStructs(pp.PkgPath)
			}
		}
		if len(m.Spec.Lemmas) > 0 {
			rep, err := verifyLemmas(e, target.PkgPath)
			if err != nil {
				rr.GenErrors = append(rr.GenErrors, fmt.Sprintf("%s: lemmas: %v", m.Name, err))
			} else {
				mk(rep)
			}
		}
		if len(m.Spec.Axioms) > 0 {
			rep, err := axiomsConsistent(e, target.PkgPath)
			if err != nil {
				rr.GenErrors = append(rr.GenErrors, fmt.Sprintf("%s: axioms: %v", m.Name, err))
			} else {
				mk(rep)
			}
			for _, a := range m.Spec.Axioms {
				rr.Axioms = append(rr.Axioms, m.Name+": axiom "+a.Name)
			}
		}
	}
	return jobs
}

// mergeSpec returns a copy of own extended with the definitions and (imported) contracts of used.
func mergeSpec(own, used *spec.File) (*spec.File, error) {
	m := *own
	m.Pures = map[string]*spec.PureDecl{}
	m.UFuns = map[string]*spec.UFun{}
	m.Folds = map[string]*spec.FoldDecl{}
	m.Funcs = map[string]*spec.FuncSpec{}
	for k, v := range used.Pures {
		m.Pures[k] = v
	}
	for k, v := range own.Pures {
		m.Pures[k] = v
	}
	for k, v := range used.UFuns {
		m.UFuns[k] = v
	}
	for k, v := range own.UFuns {
		m.UFuns[k] = v
	}
	for k, v := range used.Folds {
		m.Folds[k] = v
	}
	for k, v := range own.Folds {
		m.Folds[k] = v
	}
	for k, v := range used.Funcs {
		if v.InputOnly {
			continue // an input bound for the used module's own invariant sweep, not a contract
		}
		c := *v
		c.Imported = true
		m.Funcs[k] = &c
	}
	for k, v := range own.Funcs {
		// a function under contract both here and in the used module: this module's contract is the one applied and
		// verified here (the other one is verified in its own module)
		m.Funcs[k] = v
	}
	m.Axioms = append(append([]*spec.InvDecl{}, used.Axioms...), own.Axioms...)
	m.RefInvs = append(append(append([]*spec.InvDecl{}, own.RefInvs...), used.Invs...), used.RefInvs...)
	// lemmas proved in the used module are facts here (those with a known finding only in their restricted form,
	// which is not reproduced here: they are skipped)
	for _, l := range used.Lemmas {
		if l.Finding == "" {
			m.Axioms = append(m.Axioms, &spec.InvDecl{Name: "lemma:" + l.Name, Body: l.Body})
		}
	}
	return &m, nil
}

func verifyLemmas(e *sym.Engine, pkgPath string) (rep *sym.FuncReport, err error) {
	defer func() {
		if r := recover(); r != nil {
			err = fmt.Errorf("%v", r)
		}
	}()
	return e.VerifyLemmas(pkgPath), nil
}

func axiomsConsistent(e *sym.Engine, pkgPath string) (rep *sym.FuncReport, err error) {
	defer func() {
		if r := recover(); r != nil {
			err = fmt.Errorf("%v", r)
		}
	}()
	return e.AxiomsConsistent(pkgPath), nil
}

func relTo(root, f string) string {
	if strings.HasPrefix(f, root+"/") {
		return f[len(root)+1:]
	}
	return f
}

// Run generates and discharges the obligations of the selected modules.
func Run(opt Options, own, used []*Module, all []*Module) *RunResult {
	rr := &RunResult{}
	t0 := time.Now()
	byName := map[string]*Module{}
	for _, m := range all {
		byName[m.Name] = m
	}
	relSet := map[string]bool{"./common": true}
	for _, m := range append(append([]*Module{}, own...), used...) {
		relSet[m.PkgRel] = true
	}
	var rels []string
	for r := range relSet {
		rels = append(rels, r)
	}
	sort.Strings(rels)
	pkgs, err := Load(opt.Root, rels)
	if err != nil {
		rr.Errors = append(rr.Errors, err.Error())
		return rr
	}
	rr.LoadSecs = time.Since(t0).Seconds()
	var jobs []*job
	support := map[string]bool{}
	applied := map[string]bool{}
	done := map[string]bool{}
	for _, m := range own {
		if opt.OnlyModule != "" && m.Name != opt.OnlyModule && m.Spec.Module != opt.OnlyModule {
			continue
		}
		rr.Modules = append(rr.Modules, m.Name)
		jobs = append(jobs, genModule(pkgs, m, byName, opt, rr, nil, done, applied)...)
	}
	// supporting modules: verify the contracts the check rests on (transitively), not everything they contain
	listed := map[string]bool{}
	relied := map[string]bool{}
	for _, m := range append(append([]*Module{}, own...), used...) {
		for _, r := range m.Spec.Relies {
			relied[r[0]+"."+r[1]] = true
		}
	}
	for round := 0; round < 12; round++ {
		before := len(done)
		for _, m := range used {
			if opt.OnlyModule != "" && m.Name != opt.OnlyModule && m.Spec.Module != opt.OnlyModule {
				continue
			}
			if !listed[m.Name] {
				listed[m.Name] = true
				rr.Modules = append(rr.Modules, m.Name)
			}
			if relied[m.Name] {
				// a module whose invariant another module relies on is verified in full (the invariant is an induction
				// over all its exported methods), once
				if !done["full:"+m.Name] {
					done["full:"+m.Name] = true
					jobs = append(jobs, genModule(pkgs, m, byName, opt, rr, nil, done, applied)...)
				}
				continue
			}
			jobs = append(jobs, genModule(pkgs, m, byName, opt, rr, applied, done, applied)...)
		}
		if len(done) == before {
			break
		}
	}
	for _, m := range used {
		support[m.Name] = true
	}
	timeout := opt.Timeout
	if timeout == 0 {
		timeout = 20 * time.Second
		if opt.Tier == "thorough" {
			timeout = 120 * time.Second
		}
	}
	sem := make(chan struct{}, 6)
	var wg sync.WaitGroup
	for _, j := range jobs {
		wg.Add(1)
		go func(j *job) {
			defer wg.Done()
			sem <- struct{}{}
			defer func() { <-sem }()
			canary := strings.HasSuffix(j.obl.Name, "#canary") || strings.HasSuffix(j.obl.Name, "#axioms-consistent") || kindOf(j.obl.Name) == "cover"
			o := smt.Options{Timeout: timeout, QuantTimeout: timeout / 2, DumpDir: opt.DumpDir, Seed: opt.Seed}
			if canary {
				// a canary is expected to be sat/unknown: do not spend the full timeout on it
				o.Timeout = 3 * time.Second
				o.QuantTimeout = 2 * time.Second
				o.NoQuantStage = !strings.HasSuffix(j.q.Name, "@0")
			}
			j.res = smt.Check(j.q, o)
		}(j)
	}
	wg.Wait()
	// Second chance, per query: a result that is neither a proof nor a definite counterexample (unknown, timeout, or a
	// ground-stage model of an instantiated query whose quantified stage was inconclusive) is tried again with triple
	// timeouts - unless the obligation already has a definite counterexample on another path. Bounded by a wall-clock budget.
	{
		definite := map[*sym.Obligation]bool{}
		for _, j := range jobs {
			if j.res.Status == "sat" && !j.res.Weak {
				definite[j.obl] = true
			}
		}
		expected := map[string]bool{} // clauses recorded with a known finding are expected to fail in the finding's region
		for _, j := range jobs {
			if j.obl.Full != "" {
				expected[j.obl.Full] = true
			}
		}
		var again []*job
		for _, j := range jobs {
			canary := strings.HasSuffix(j.obl.Name, "#canary") || strings.HasSuffix(j.obl.Name, "#axioms-consistent") || kindOf(j.obl.Name) == "cover"
			if canary || j.res.Status == "unsat" || j.res.Status == "error" || definite[j.obl] || expected[j.obl.Name] {
				continue
			}
			again = append(again, j)
		}
		if len(again) > 0 {
			budget := 4 * time.Minute
			if opt.Tier == "thorough" {
				budget = 20 * time.Minute
			}
			deadline := time.Now().Add(budget)
			fmt.Printf("retrying %d undecided quer(ies) with timeout %v (budget %v), first: %s\n", len(again), 3*timeout, budget, again[0].q.Name)
			var wg2 sync.WaitGroup
			for _, j := range again {
				wg2.Add(1)
				go func(j *job) {
					defer wg2.Done()
					sem <- struct{}{}
					defer func() { <-sem }()
					if time.Now().After(deadline) {
						return
					}
					o := smt.Options{Timeout: 3 * timeout, QuantTimeout: 3 * timeout / 2, DumpDir: opt.DumpDir, Seed: opt.Seed + 1}
					r2 := smt.Check(j.q, o)
					r2.Seconds += j.res.Seconds
					if r2.Status == "unsat" || (r2.Status == "sat" && !r2.Weak) || j.res.Status != "sat" {
						j.res = r2
					}
				}(j)
			}
			wg2.Wait()
		}
	}
	// aggregate per obligation, in generation order
	var order []*sym.Obligation
	byObl := map[*sym.Obligation][]*job{}
	for _, j := range jobs {
		if _, ok := byObl[j.obl]; !ok {
			order = append(order, j.obl)
		}
		byObl[j.obl] = append(byObl[j.obl], j)
	}
	for _, so := range order {
		js := byObl[so]
		o := &Obl{Name: so.Name, Module: js[0].mod.Name, Tags: so.Tags, Text: so.Text, Kind: kindOf(so.Name), Queries: len(js), Backends: map[string]int{}, Finding: so.Finding, Full: so.Full, rep: js[0].rep, Support: support[js[0].mod.Name]}
		if js[0].rep != nil {
			o.Func = js[0].rep.Func
		}
		status := "discharged"
		var worst *job
		for _, j := range js {
			o.Seconds += j.res.Seconds
			if j.res.Seconds > o.Slowest {
				o.Slowest = j.res.Seconds
			}
			if j.res.Size > o.Size {
				o.Size = j.res.Size
			}
			o.Backends[j.res.Solver+"/"+j.res.Stage]++
			if j.res.Status != "unsat" {
				status = "failed"
				if worst == nil || (j.res.Status == "sat" && worst.res.Status != "sat") {
					worst = j
				}
			}
		}
		if worst != nil {
			o.Detail = worst.res.Status
			o.Model = worst.res.Model
			o.Raw = worst.res.Raw
			o.worstQ = worst.q
			o.Skolems = worst.res.GoalSkolems
			o.Weak = worst.res.Weak
		}
		if o.Kind == "cover" {
			// reachability goal: it holds unless every normal exit is refuted together with the cover condition
			if status == "discharged" {
				status = "failed"
				o.Detail = "unreachable"
				o.Raw = "no normal exit of the function is compatible with the cover condition: a documented success now faults (or the contract became contradictory)"
			} else {
				status = "discharged"
				o.Detail, o.Model, o.Raw = "reachable: not refuted (solver gave up on a witness)", nil, ""
				for _, j := range js {
					if j.res.Status == "sat" {
						o.Detail = "reachable: witness found"
					}
				}
			}
		}
		if o.Kind == "canary" || o.Kind == "axioms" {
			if status == "discharged" { // false was proved on every exit (or there is no exit)
				status = "vacuous"
				if so.NoExits {
					o.Detail = "no normal exit"
				}
			} else {
				status = "ok"
			}
		}
		o.Status = status
		rr.Obls = append(rr.Obls, o)
	}
	if opt.OnlyFunc == "" && opt.OnlyModule == "" {
		rr.Obls = append(rr.Obls, aliasObligations(pkgs)...)
	}
	return rr
}

// aliasObligations: validity of the functional model of compound values (NeoVM structs, arrays and buffers are
// references). One obligation per contract package loaded for this check; it is discharged by the syntactic
// alias-mutation scan (sym.AliasScan), not by a solver.
func aliasObligations(pkgs []*packages.Package) []*Obl {
	byPkg := map[string][]sym.AliasFinding{}
	var names []string
	for _, p := range pkgs {
		if strings.Contains(p.PkgPath, "neofs-contract/contracts/") || strings.HasSuffix(p.PkgPath, "neofs-contract/common") {
			names = append(names, p.Types.Name())
		}
	}
	sort.Strings(names)
	for _, f := range sym.AliasScan(pkgs) {
		byPkg[f.Pkg] = append(byPkg[f.Pkg], f)
	}
	var out []*Obl
	for _, n := range names {
		o := &Obl{Name: "model:" + n + "#no-alias-mutation", Module: "model", Func: n, Kind: "model", Queries: 1, Backends: map[string]int{"govc/alias-scan": 1},
			Text: "no compound value (struct, array, map, buffer) of package " + n + " is changed in place while another live name refers to it (validity of the functional model of compound values; NeoVM values of these kinds are references)"}
		o.Status = "discharged"
		if fs := byPkg[n]; len(fs) > 0 {
			o.Status = "failed"
			o.Detail = "alias-mutation"
			var b strings.Builder
			for _, f := range fs {
				fmt.Fprintf(&b, "%s %s: %s\n", f.Pos, f.Func, f.What)
			}
			o.Raw = b.String()
		}
		out = append(out, o)
	}
	return out
}

// AliasReport prints the alias-mutation scan of the given package patterns (development aid).
func AliasReport(root string, rels []string) {
	pkgs, err := Load(root, rels)
	if err != nil {
		fmt.Println("load:", err)
		return
	}
	for _, f := range sym.AliasScan(pkgs) {
		fmt.Printf("%s %s: %s\n", f.Pos, f.Func, f.What)
	}
}
