package drv

import (
	"bytes"
	"encoding/hex"
	"encoding/json"
	"fmt"
	"os"
	"os/exec"
	"path/filepath"
	"sort"
	"strconv"
	"strings"
	"time"

	"math/big"

	"govc/smt"
	"govc/spec"
	"govc/sx"
	"govc/sym"
)

// Replay of a counterexample on the real code (DESIGN 7.1):
//  1. the values of the function's parameters, of the witness predicate and of every pre-state cell read on the path
//     are taken from the solver's model (kept in the replay file);
//  2. a scratch copy of the working tree gets a generated wrapper file in the contract package (exported wrapper for an
//     unexported function, raw storage seeding) and a generated neotest test that deploys the contract with the
//     repository's own helpers, seeds the cells, signs according to the model, invokes the function with the real
//     neo-go compiler and VM, and dumps result, notifications and the whole storage before and after;
//  3. the violated clause is evaluated on (model inputs, observed outputs) as a ground solver query, using the model's
//     witnesses for the clause's universally quantified variables. Only if the clause is refuted on the observation is
//     the violation `confirmed`.

type replayCase struct {
	Property    string            `json:"property"`
	Obligation  string            `json:"obligation"`
	Module      string            `json:"module"`
	Func        string            `json:"func"`
	Clause      string            `json:"clause"`
	File        string            `json:"file"`
	Params      []sym.ParamInfo   `json:"params"`
	Results     []string          `json:"results"`
	Exported    bool              `json:"exported"`
	Recv        bool              `json:"recv"`
	Model       map[string]string `json:"model"`
	GoalSkolems []smt.SkInfo      `json:"goal_skolems"`
}

// deploy snippets: Go statements that leave a *neotest.ContractInvoker `c` for the contract of the package
var deploySnippets = map[string]string{
	"balance": `e := newExecutor(t)
	deployDefaultNNS(t, e)
	deployNetmapContract(t, e)
	c := e.CommitteeInvoker(deployBalanceContract(t, e, util.Uint160{}, util.Uint160{}))`,
	"netmap":     `c := newNetmapInvoker(t)`,
	"container":  `c, _, _ := newContainerInvoker(t, false)`,
	"nns":        `c := newNNSInvoker(t, false)`,
	"reputation": `c := newReputationInvoker(t)`,
	"neofsid":    `c := newNeoFSIDInvoker(t)`,
	"neofs":      `c, _, _ := newNeoFSInvoker(t, 1)`,
	"proxy":      `c := newProxyInvoker(t)`,
}

func decodeSMTString(lit string) ([]byte, bool) {
	if len(lit) < 2 || lit[0] != '"' {
		return nil, false
	}
	s := lit[1 : len(lit)-1]
	var out []byte
	for i := 0; i < len(s); {
		switch {
		case strings.HasPrefix(s[i:], `""`):
			out = append(out, '"')
			i += 2
		case strings.HasPrefix(s[i:], `\u{`):
			j := strings.IndexByte(s[i:], '}')
			if j < 0 {
				return nil, false
			}
			v, err := strconv.ParseUint(s[i+3:i+j], 16, 32)
			if err != nil || v > 255 {
				return nil, false
			}
			out = append(out, byte(v))
			i += j + 1
		default:
			out = append(out, s[i])
			i++
		}
	}
	return out, true
}

func intOfTerm(t *sx.T) (string, bool) {
	if t.IsAtom() {
		if _, err := strconv.ParseInt(t.A, 10, 64); err == nil {
			return t.A, true
		}
		return "", false
	}
	if t.Head() == "-" && len(t.L) == 2 {
		if v, ok := intOfTerm(t.L[1]); ok {
			return "-" + v, true
		}
	}
	return "", false
}

type rarg struct {
	Name, Kind string // int | bool | bytes
	Int        string
	Bool       bool
	Bytes      []byte
	Nil        bool
}

type rcell struct {
	Key    []byte
	Absent bool
	Raw    []byte
}

func setReplayStatus(path string, rc map[string]any, status, note string, extra map[string]any) (string, string) {
	m := map[string]any{"status": status, "note": note}
	for k, v := range extra {
		m[k] = v
	}
	rc["replay"] = m
	out, _ := json.MarshalIndent(rc, "", " ")
	os.WriteFile(path, append(out, '\n'), 0o644)
	return status, note
}

// Replay re-runs a replay case on the real code. Status: confirmed | not-reproduced | not-attempted.
func Replay(opt Options, path string) (string, string) {
	b, err := os.ReadFile(path)
	if err != nil {
		return "not-attempted", err.Error()
	}
	var rc map[string]any
	if err := json.Unmarshal(b, &rc); err != nil {
		return "not-attempted", err.Error()
	}
	var c replayCase
	json.Unmarshal(b, &c)
	fail := func(why string) (string, string) { return setReplayStatus(path, rc, "not-attempted", why, nil) }
	if c.Model == nil {
		return fail("the solver gave no counterexample (unknown/timeout or a quantified failure)")
	}
	if !strings.HasPrefix(c.File, "contracts/") {
		return fail("replay is generated for functions of the contract packages only (" + c.File + ")")
	}
	pkgName := strings.Split(c.File, "/")[1]
	snippet, ok := deploySnippets[pkgName]
	if !ok {
		return fail("no deployment recipe for contract " + pkgName)
	}
	goal := c.Obligation[strings.LastIndex(c.Obligation, "#")+1:]
	kind := kindOf(c.Obligation)
	if kind != "ensures" && kind != "inv" && kind != "witness" && kind != "safe" {
		return fail("obligation " + goal + " is a step of a modular proof (loop invariant, call precondition, frame): its counterexample starts from an arbitrary state satisfying the invariant and is not an input of an exported method")
	}
	if strings.Contains(goal, ".except.") {
		return fail("restricted form of a known finding")
	}
	val := func(term string) (*sx.T, bool) {
		v, ok := c.Model[term]
		if !ok {
			return nil, false
		}
		ts, err := sx.Parse(v)
		if err != nil || len(ts) != 1 {
			return nil, false
		}
		return ts[0], true
	}
	// ---- parameters -------------------------------------------------------------------------------
	var args []rarg
	for _, p := range c.Params {
		if p.Term == "" || !strings.HasPrefix(p.Term, "p_") {
			continue
		}
		v, ok := val(p.Term)
		a := rarg{Name: p.Name}
		switch p.Sort {
		case "Int":
			a.Kind = "int"
			a.Int = "0"
			if ok {
				if iv, ok2 := intOfTerm(v); ok2 {
					a.Int = iv
				} else {
					return fail("parameter " + p.Name + ": integer value outside int64")
				}
			}
		case "Bool":
			a.Kind = "bool"
			a.Bool = ok && v.A == "true"
		case "NB":
			a.Kind = "bytes"
			a.Nil = true
			if ok && v.Head() == "mkNB" && v.L[1].A != "true" {
				bs, ok2 := decodeSMTString(v.L[2].A)
				if !ok2 {
					return fail("parameter " + p.Name + ": value is not a byte string")
				}
				a.Bytes, a.Nil = bs, false
			}
		default:
			return fail("parameter " + p.Name + " has sort " + p.Sort + " (lists and structs are not generated yet)")
		}
		args = append(args, a)
	}
	// ---- pre-state cells read on the path -----------------------------------------------------------------
	var cells []rcell
	for term, v := range c.Model {
		if !strings.HasPrefix(term, "(select store0 ") {
			continue
		}
		keyTerm := term[len("(select store0 ") : len(term)-1]
		var key []byte
		if strings.HasPrefix(keyTerm, `"`) {
			k, ok := decodeSMTString(keyTerm)
			if !ok {
				continue
			}
			key = k
		} else if kv, ok := val(keyTerm); ok && kv.IsAtom() {
			k, ok := decodeSMTString(kv.A)
			if !ok {
				continue
			}
			key = k
		} else {
			continue
		}
		cl := rcell{Key: key}
		pv, err := sx.Parse(v)
		if err != nil || len(pv) != 1 {
			continue
		}
		if pv[0].IsAtom() && pv[0].A == "None" {
			cl.Absent = true
		} else if pv[0].Head() == "Some" {
			raw, ok := decodeSMTString(pv[0].L[1].A)
			if !ok {
				continue
			}
			cl.Raw = raw
			// the code reads this cell through std.Deserialize or as an integer: the model's value of that view is what
			// has to be stored (the raw bytes of the model are an arbitrary name for it)
			for t2, v2 := range c.Model {
				if strings.HasPrefix(t2, "(deser_") && strings.Contains(t2, "(val "+term+")") && strings.Count(t2, "(select store0 ") <= 2 {
					if sv, err := sx.Parse(v2); err == nil && len(sv) == 1 {
						if enc, ok := encodeVMItem(sx.ExpandLets(sv[0])); ok {
							cl.Raw = enc
						}
					}
				}
			}
			if v2, ok := c.Model["(b2i (val "+term+"))"]; ok {
				if iv, err := sx.Parse(v2); err == nil && len(iv) == 1 {
					if n, ok := intOfTerm(iv[0]); ok {
						bi, _ := new(big.Int).SetString(n, 10)
						cl.Raw = minimalLEBytes(bi)
					}
				}
			}
		} else {
			continue
		}
		dup := false
		for _, o := range cells {
			if bytes.Equal(o.Key, cl.Key) {
				dup = true
			}
		}
		if !dup {
			cells = append(cells, cl)
		}
	}
	sort.Slice(cells, func(i, j int) bool { return bytes.Compare(cells[i].Key, cells[j].Key) < 0 })
	// ---- witnesses ------------------------------------------------------------------------------------------
	committee := false
	witness := map[string]bool{} // hex of a 20-byte address or 33-byte key that must carry a witness
	for term, v := range c.Model {
		if !strings.HasPrefix(term, "(W ") || v != "true" && v != "false" {
			if !(strings.Contains(term, "(W ") && strings.Contains(term, "contract_CreateMultisigAccount")) {
				continue
			}
		}
		if strings.Contains(term, "contract_CreateMultisigAccount") && strings.Contains(term, "(W ") {
			if v == "true" {
				committee = true // the test chain has a one-key committee: its 2/3+1 and majority accounts coincide
			}
			continue
		}
		inner := term[3 : len(term)-1]
		var bs []byte
		if strings.HasPrefix(inner, `"`) {
			bs, _ = decodeSMTString(inner)
		} else if av, ok := val(inner); ok && av.IsAtom() {
			bs, _ = decodeSMTString(av.A)
		}
		if len(bs) == 20 || len(bs) == 33 {
			witness[hex.EncodeToString(bs)] = v == "true"
		}
	}
	var wit []string
	for h, w := range witness {
		if w {
			wit = append(wit, h)
		}
	}
	sort.Strings(wit)
	// ---- scratch copy, wrapper, test -------------------------------------------------------------------------
	scratch, err := os.MkdirTemp("", "govc-replay-")
	if err != nil {
		return fail(err.Error())
	}
	defer os.RemoveAll(scratch)
	if out, err := exec.Command("rsync", "-a", "--exclude", ".git", opt.Root+"/", scratch+"/").CombinedOutput(); err != nil {
		return fail("rsync: " + string(out))
	}
	fnName := c.Func[strings.Index(c.Func, ".")+1:]
	method := strings.ToLower(fnName[:1]) + fnName[1:]
	imports := map[string]bool{"github.com/nspcc-dev/neo-go/pkg/interop/storage": true}
	wrapper := ""
	if !c.Exported {
		method = "verifCall"
		var ps, as []string
		for _, p := range c.Params {
			switch {
			case strings.HasSuffix(p.GoType, "storage.Context"):
				as = append(as, "storage.GetContext()")
			case p.Term != "" && !strings.HasPrefix(p.Term, "p_"):
				continue // receiver bound to a package-level object
			default:
				gt := p.GoType
				if strings.Contains(gt, "neo-go/pkg/interop.") {
					imports["github.com/nspcc-dev/neo-go/pkg/interop"] = true
					gt = strings.ReplaceAll(gt, "github.com/nspcc-dev/neo-go/pkg/interop.", "interop.")
				}
				if i := strings.LastIndex(gt, "/"); i >= 0 && strings.Contains(gt, ".") && !strings.HasPrefix(gt, "interop.") && !strings.HasPrefix(gt, "[]") {
					// a named type of another package of the repository (nodestate.Type ...)
					full := gt[:strings.LastIndex(gt, ".")]
					imports[full] = true
					gt = gt[i+1:]
				}
				ps = append(ps, p.Name+" "+gt)
				as = append(as, p.Name)
			}
		}
		call := fnName
		if c.Recv {
			parts := strings.SplitN(fnName, ".", 2)
			call = strings.ToLower(parts[0]) + "." + parts[1] // package-level object named after its type (balance: token)
		}
		ret, body := "", fmt.Sprintf("%s(%s)", call, strings.Join(as, ", "))
		switch len(c.Results) {
		case 0:
		case 1:
			ret, body = " any", "return "+body
		default:
			ret = " []any"
			var rs []string
			for i := range c.Results {
				rs = append(rs, fmt.Sprintf("r%d", i))
			}
			body = fmt.Sprintf("%s := %s\n\treturn []any{%s}", strings.Join(rs, ", "), body, strings.Join(rs, ", "))
		}
		wrapper = fmt.Sprintf("// VerifCall is generated by the verifier's replay (scratch copy only).\nfunc VerifCall(%s)%s {\n\t%s\n}\n", strings.Join(ps, ", "), ret, body)
	}
	var imp []string
	for k := range imports {
		imp = append(imp, fmt.Sprintf("\t%q", k))
	}
	sort.Strings(imp)
	wrapSrc := fmt.Sprintf(`package %s

import (
%s
)

// VerifSeed writes one raw storage cell, VerifUnset removes one (scratch copy only).
func VerifSeed(key []byte, value []byte) {
	storage.Put(storage.GetContext(), key, value)
}

func VerifUnset(key []byte) {
	storage.Delete(storage.GetContext(), key)
}

%s`, pkgName, strings.Join(imp, "\n"), wrapper)
	os.WriteFile(filepath.Join(scratch, "contracts", pkgName, "zz_verif_wrap.go"), []byte(wrapSrc), 0o644)

	var tb strings.Builder
	tb.WriteString(`package tests

import (
	"bytes"
	"encoding/hex"
	"encoding/json"
	"fmt"
	"math/big"
	"testing"

	"github.com/nspcc-dev/neo-go/pkg/neotest"
	"github.com/nspcc-dev/neo-go/pkg/util"
	"github.com/nspcc-dev/neo-go/pkg/vm/stackitem"
)

var _ = big.NewInt
var _ = util.Uint160{}
var _ = bytes.Equal

func verifItem(it stackitem.Item) string {
	if it == nil {
		return "null"
	}
	switch it.Type() {
	case stackitem.AnyT:
		return "null"
	case stackitem.IntegerT:
		bi, _ := it.TryInteger()
		return "i:" + bi.String()
	case stackitem.BooleanT:
		b, _ := it.TryBool()
		if b {
			return "i:1"
		}
		return "i:0"
	case stackitem.ByteArrayT, stackitem.BufferT:
		b, _ := it.TryBytes()
		return "b:" + hex.EncodeToString(b)
	case stackitem.ArrayT, stackitem.StructT:
		s := "["
		for i, x := range it.Value().([]stackitem.Item) {
			if i > 0 {
				s += ","
			}
			s += verifItem(x)
		}
		return s + "]"
	}
	return "?"
}

func TestVerifReplay(t *testing.T) {
	`)
	tb.WriteString(snippet + "\n")
	tb.WriteString(`	vex := c.Executor
	id := vex.Chain.GetContractState(c.Hash).ID
	unhex := func(s string) []byte { b, _ := hex.DecodeString(s); return b }
	// model addresses / keys that must carry a witness are renamed to real accounts
	type ren struct{ from, to []byte }
	var rens []ren
	var signers []neotest.Signer
`)
	for _, h := range wit {
		bs, _ := hex.DecodeString(h)
		if len(bs) == 20 {
			fmt.Fprintf(&tb, "\t{\n\t\tacc := c.NewAccount(t)\n\t\trens = append(rens, ren{unhex(%q), acc.ScriptHash().BytesBE()})\n\t\tsigners = append(signers, acc)\n\t}\n", h)
		} else {
			fmt.Fprintf(&tb, "\t{\n\t\tacc := c.NewAccount(t)\n\t\trens = append(rens, ren{unhex(%q), acc.(neotest.SingleSigner).Account().PublicKey().Bytes()})\n\t\tsigners = append(signers, acc)\n\t}\n", h)
		}
	}
	tb.WriteString(`	rn := func(b []byte) []byte {
		for _, r := range rens {
			b = bytes.ReplaceAll(b, r.from, r.to)
		}
		return b
	}
`)
	for _, cl := range cells {
		if cl.Absent {
			fmt.Fprintf(&tb, "\tif vex.Chain.GetStorageItem(id, rn(unhex(%q))) != nil {\n\t\tc.Invoke(t, stackitem.Null{}, \"verifUnset\", rn(unhex(%q)))\n\t}\n", hex.EncodeToString(cl.Key), hex.EncodeToString(cl.Key))
		} else {
			fmt.Fprintf(&tb, "\tc.Invoke(t, stackitem.Null{}, \"verifSeed\", rn(unhex(%q)), rn(unhex(%q)))\n", hex.EncodeToString(cl.Key), hex.EncodeToString(cl.Raw))
		}
	}
	if committee {
		tb.WriteString("\tsigners = append([]neotest.Signer{vex.Committee}, signers...)\n")
	}
	tb.WriteString("\tif len(signers) == 0 {\n\t\tsigners = append(signers, c.NewAccount(t)) // somebody has to pay; carries no relevant witness\n\t}\n")
	var call []string
	for _, a := range args {
		switch a.Kind {
		case "int":
			call = append(call, fmt.Sprintf("big.NewInt(%s)", a.Int))
		case "bool":
			call = append(call, fmt.Sprint(a.Bool))
		case "bytes":
			if a.Nil {
				call = append(call, "nil")
			} else {
				call = append(call, fmt.Sprintf("rn(unhex(%q))", hex.EncodeToString(a.Bytes)))
			}
		}
	}
	tb.WriteString(`	dump := func() map[string]string {
		m := map[string]string{}
		vex.Chain.SeekStorage(id, []byte{}, func(k, v []byte) bool {
			m[hex.EncodeToString(k)] = hex.EncodeToString(v)
			return true
		})
		return m
	}
	pre := dump()
`)
	fmt.Fprintf(&tb, "\ttx := c.WithSigners(signers...).PrepareInvoke(t, %q%s)\n", method, func() string {
		if len(call) == 0 {
			return ""
		}
		return ", " + strings.Join(call, ", ")
	}())
	tb.WriteString(`	vex.AddNewBlock(t, tx)
	aer := vex.GetTxExecResult(t, tx.Hash())
	out := map[string]any{"state": aer.VMState.String(), "fault": aer.FaultException, "pre": pre, "post": dump()}
	if len(aer.Stack) > 0 {
		out["result"] = verifItem(aer.Stack[0])
	}
	var evs []map[string]any
	for _, ev := range aer.Events {
		if ev.ScriptHash != c.Hash {
			continue
		}
		var as []string
		for _, it := range ev.Item.Value().([]stackitem.Item) {
			as = append(as, verifItem(it))
		}
		evs = append(evs, map[string]any{"name": ev.Name, "args": as})
	}
	out["events"] = evs
	rr := map[string]string{}
	for _, r := range rens {
		rr[hex.EncodeToString(r.from)] = hex.EncodeToString(r.to)
	}
	out["renamed"] = rr
	var argsHex []string
`)
	for _, a := range args {
		if a.Kind == "bytes" && !a.Nil {
			fmt.Fprintf(&tb, "\targsHex = append(argsHex, hex.EncodeToString(rn(unhex(%q))))\n", hex.EncodeToString(a.Bytes))
		} else {
			tb.WriteString("\targsHex = append(argsHex, \"\")\n")
		}
	}
	tb.WriteString(`	out["args"] = argsHex
	j, _ := json.Marshal(out)
	fmt.Println("REPLAY-RESULT " + string(j))
}
`)
	testSrc := tb.String()
	os.WriteFile(filepath.Join(scratch, "tests", "zz_verif_replay_test.go"), []byte(testSrc), 0o644)
	genPath := strings.TrimSuffix(path, ".json") + ".replay_test.go.txt"
	os.WriteFile(genPath, []byte(testSrc+"\n/* generated wrapper (contracts/"+pkgName+"/zz_verif_wrap.go):\n"+wrapSrc+"*/\n"), 0o644)
	t0 := time.Now()
	cmd := exec.Command("go", "test", "-vet=off", "-count=1", "-timeout", "120s", "-run", "^TestVerifReplay$", "-v", ".")
	cmd.Dir = filepath.Join(scratch, "tests")
	cmd.Env = append(os.Environ(), "GOFLAGS=-mod=mod", "GOPROXY=off", "GOSUMDB=off", "GOTOOLCHAIN=local")
	outB, _ := cmd.CombinedOutput()
	resLine := ""
	for _, ln := range strings.Split(string(outB), "\n") {
		if i := strings.Index(ln, "REPLAY-RESULT "); i >= 0 {
			resLine = ln[i+len("REPLAY-RESULT "):]
		}
	}
	extra := map[string]any{"generated_test": filepath.Base(genPath), "seconds": round2(time.Since(t0).Seconds())}
	if resLine == "" {
		tail := strings.Split(strings.TrimSpace(string(outB)), "\n")
		var keep []string
		for _, l := range tail {
			if !strings.Contains(l, "logger.go") {
				keep = append(keep, l)
			}
		}
		if len(keep) > 12 {
			keep = keep[len(keep)-12:]
		}
		extra["test_output"] = keep
		return setReplayStatus(path, rc, "not-reproduced", "the real code could not be run on this counterexample (the generated test did not reach the invocation: seeding or deployment failed)", extra)
	}
	var obs observation
	json.Unmarshal([]byte(resLine), &obs)
	extra["observation"] = json.RawMessage(resLine)
	if obs.State != "HALT" {
		return setReplayStatus(path, rc, "not-reproduced", "on the real VM this input faults ("+obs.Fault+"): the transaction is reverted, no postcondition is owed (A1)", extra)
	}
	verdict, note := evalOnObservation(opt, &c, args, cells, &obs, committee, witness)
	return setReplayStatus(path, rc, verdict, note, extra)
}

type observation struct {
	State, Fault, Result string
	Pre, Post            map[string]string
	Events               []struct {
		Name string
		Args []string
	}
	Renamed map[string]string
	Args    []string
}

// evalOnObservation evaluates the violated clause on (model inputs, observed outputs).
func evalOnObservation(opt Options, c *replayCase, args []rarg, cells []rcell, obs *observation, committee bool, witness map[string]bool) (string, string) {
	all, err := Scan(opt.Root)
	if err != nil {
		return "not-reproduced", "contracts cannot be read: " + err.Error()
	}
	var mod *Module
	modIdent := c.Obligation[:strings.Index(c.Obligation, ":")]
	for _, m := range all {
		if m.Name == c.Module || (m.Spec.Module == modIdent && strings.HasPrefix(c.File, strings.TrimPrefix(m.PkgRel, "./"))) {
			mod = m
		}
	}
	if mod == nil {
		return "not-reproduced", "module of the obligation not found"
	}
	pkgs, err := Load(opt.Root, []string{mod.PkgRel, "./common"})
	if err != nil {
		return "not-reproduced", err.Error()
	}
	target := pkgByRel(pkgs, mod.PkgRel)
	e := sym.New(pkgs)
	e.Specs[target.PkgPath] = mod.Spec
	goal := c.Obligation[strings.LastIndex(c.Obligation, "#")+1:]
	fnKey := c.Func[strings.Index(c.Func, ".")+1:]
	rename := func(b []byte) []byte {
		for from, to := range obs.Renamed {
			fb, _ := hex.DecodeString(from)
			tb, _ := hex.DecodeString(to)
			b = bytes.ReplaceAll(b, fb, tb)
		}
		return b
	}
	params := map[string]spec.TV{}
	for _, a := range args {
		switch a.Kind {
		case "int":
			params[a.Name] = spec.TV{T: sx.IntS(a.Int), Ty: spec.Type{K: spec.KInt}}
		case "bool":
			params[a.Name] = spec.TV{T: sx.Bool(a.Bool), Ty: spec.Type{K: spec.KBool}}
		case "bytes":
			if a.Nil {
				params[a.Name] = spec.TV{T: spec.NilNB, Ty: spec.Type{K: spec.KNB}}
			} else {
				params[a.Name] = spec.TV{T: spec.MkNB(sx.Str(string(rename(a.Bytes)))), Ty: spec.Type{K: spec.KNB}}
			}
		}
	}
	dumpToCells := func(m map[string]string) []sym.RawCell {
		var keys []string
		for k := range m {
			keys = append(keys, k)
		}
		sort.Strings(keys)
		var out []sym.RawCell
		for _, k := range keys {
			kb, _ := hex.DecodeString(k)
			vb, _ := hex.DecodeString(m[k])
			out = append(out, sym.RawCell{Key: string(kb), Raw: string(vb)})
		}
		return out
	}
	var events []sym.RawEvent
	for _, ev := range obs.Events {
		events = append(events, sym.RawEvent{Name: ev.Name, Args: ev.Args})
	}
	var wits []sym.RawWitness
	for h, w := range witness {
		b, _ := hex.DecodeString(h)
		wits = append(wits, sym.RawWitness{Bytes: string(rename(b)), Holds: w})
	}
	var skVals []sym.SkolemValue
	for _, sk := range c.GoalSkolems {
		if v, ok := c.Model[sk.Name]; ok {
			skVals = append(skVals, sym.SkolemValue{Var: sk.Var, Sort: sk.Sort, Value: v})
		}
	}
	q, err := e.EvalOnObservation(target.PkgPath, fnKey, goal, params, obs.Result, dumpToCells(obs.Pre), dumpToCells(obs.Post), events, wits, committee, skVals, obs.Renamed)
	if err != nil {
		return "not-reproduced", "the clause cannot be evaluated on the observation: " + err.Error()
	}
	res := smt.Check(q, smt.Options{Timeout: 30 * time.Second, QuantTimeout: 10 * time.Second})
	switch res.Status {
	case "unsat":
		return "confirmed", "the real code (compiled with the neo-go compiler, run in the NeoVM) was run on the counterexample and HALTed; the clause evaluated on the observed result, storage and notifications is refuted (" + res.Solver + ")"
	case "sat":
		return "not-reproduced", "on the real VM this input halts and the observed execution does not refute the clause with the model's witnesses (the counterexample depends on an abstraction: callee contract, loop cut or unconstrained cell)"
	}
	return "not-reproduced", "the clause could not be decided on the observation (" + res.Status + ")"
}

func minimalLEBytes(v *big.Int) []byte {
	if v.Sign() == 0 {
		return []byte{}
	}
	for n := 1; n <= 33; n++ {
		lim := new(big.Int).Lsh(big.NewInt(1), uint(8*n-1))
		if v.Cmp(lim) < 0 && v.Cmp(new(big.Int).Neg(lim)) >= 0 {
			x := new(big.Int).Set(v)
			if x.Sign() < 0 {
				x.Add(x, new(big.Int).Lsh(big.NewInt(1), uint(8*n)))
			}
			be := x.Bytes()
			out := make([]byte, n)
			for i := range be {
				out[len(be)-1-i] = be[i]
			}
			return out
		}
	}
	return nil
}

func varUint(n int) []byte {
	if n < 0xfd {
		return []byte{byte(n)}
	}
	return []byte{0xfd, byte(n), byte(n >> 8)}
}

// arrayElems decodes an SMT array value (nested stores over a constant array) into its first n elements.
func arrayElems(t *sx.T, n int) ([]*sx.T, bool) {
	elems := make([]*sx.T, n)
	for t.Head() == "store" && len(t.L) == 4 {
		if is, ok := intOfTerm(t.L[2]); ok {
			var i int
			fmt.Sscanf(is, "%d", &i)
			if i >= 0 && i < n && elems[i] == nil {
				elems[i] = t.L[3]
			}
		}
		t = t.L[1]
	}
	var def *sx.T
	if len(t.L) == 2 && !t.L[0].IsAtom() && t.L[0].Head() == "as" { // ((as const (Array ..)) d)
		def = t.L[1]
	}
	for i := range elems {
		if elems[i] == nil {
			if def == nil {
				return nil, false
			}
			elems[i] = def
		}
	}
	return elems, true
}

// encodeVMItem serialises a model value (integer, boolean, nullable bytes, list, struct) in the NeoVM binary format.
func encodeVMItem(t *sx.T) ([]byte, bool) {
	if n, ok := intOfTerm(t); ok {
		bi, _ := new(big.Int).SetString(n, 10)
		b := minimalLEBytes(bi)
		return append(append([]byte{0x21}, varUint(len(b))...), b...), true
	}
	if t.IsAtom() {
		switch t.A {
		case "true":
			return []byte{0x20, 1}, true
		case "false":
			return []byte{0x20, 0}, true
		case "AnyNull":
			return []byte{0x00}, true
		case "MapEmpty":
			return []byte{0x48, 0}, true
		}
		return nil, false
	}
	h := t.Head()
	switch {
	case h == "mkNB":
		if t.L[1].A == "true" {
			return []byte{0x00}, true
		}
		b, ok := decodeSMTString(t.L[2].A)
		if !ok {
			return nil, false
		}
		return append(append([]byte{0x28}, varUint(len(b))...), b...), true
	case strings.HasPrefix(h, "mkL_") && len(t.L) == 4:
		if t.L[1].A == "true" {
			return []byte{0x00}, true
		}
		ns, ok := intOfTerm(t.L[2])
		if !ok {
			return nil, false
		}
		var n int
		fmt.Sscanf(ns, "%d", &n)
		if n < 0 || n > 64 {
			return nil, false
		}
		elems, ok := arrayElems(t.L[3], n)
		if !ok {
			return nil, false
		}
		out := append([]byte{0x40}, varUint(n)...)
		for _, e := range elems {
			b, ok := encodeVMItem(e)
			if !ok {
				return nil, false
			}
			out = append(out, b...)
		}
		return out, true
	case strings.HasPrefix(h, "mk"):
		out := append([]byte{0x41}, varUint(len(t.L)-1)...)
		for _, f := range t.L[1:] {
			b, ok := encodeVMItem(f)
			if !ok {
				return nil, false
			}
			out = append(out, b...)
		}
		return out, true
	case h == "let":
		return nil, false
	}
	return nil, false
}
