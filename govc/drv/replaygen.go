package drv

import (
	"encoding/json"
	"os"
)

// Replay re-runs a replay case on the real code. Status: confirmed | not-reproduced | not-attempted.
func Replay(opt Options, path string) (string, string) {
	b, err := os.ReadFile(path)
	if err != nil {
		return "not-attempted", err.Error()
	}
	var rc map[string]any
	if err := json.Unmarshal(b, &rc); err != nil {
		return "not-attempted", err.Error()
	}
	status, note := "not-attempted", "no replay generator for this obligation kind yet"
	rc["replay"] = map[string]any{"status": status, "note": note}
	out, _ := json.MarshalIndent(rc, "", " ")
	os.WriteFile(path, append(out, '\n'), 0o644)
	return status, note
}
