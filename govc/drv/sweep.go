package drv

import (
	"fmt"
	"os"
	"path/filepath"
	"regexp"
	"strings"

	"golang.org/x/tools/go/packages"

	"govc/spec"
	"govc/sym"
)

// sweepModule runs the authorisation sweep of a module that carries a witness table.
func sweepModule(pkgs []*packages.Package, target *packages.Package, m *Module, opt Options) (reps []*sym.FuncReport, errs []string) {
	e := sym.New(pkgs)
	e.Sweep = true
	for _, p := range pkgs {
		e.LoadGlobals(p.PkgPath)
	}
	table := map[string]*spec.WitnessReq{}
	for i := range m.Spec.Witness {
		w := &m.Spec.Witness[i]
		table[w.Method] = w
	}
	safeCfg := safeMethods(filepath.Join(opt.Root, strings.TrimPrefix(m.PkgRel, "./"), "config.yml"))
	seen := map[string]bool{}
	for _, fn := range e.ExportedFuncs(target.PkgPath) {
		if opt.OnlyFunc != "" && fn.Name() != opt.OnlyFunc {
			continue
		}
		if fn.Name() == "_deploy" {
			continue // reachable only from the native Management contract
		}
		w := table[fn.Name()]
		seen[fn.Name()] = true
		if safeCfg[manifestName(fn.Name())] && (w == nil || !w.Safe) {
			// declared safe in config.yml: must never change state, whatever the table says
			w = &spec.WitnessReq{Method: fn.Name(), Safe: true, Tags: []string{"C03"}}
		}
		rep, err := e.SweepMethod(target.PkgPath, fn, w, m.Spec)
		if err != nil {
			errs = append(errs, fmt.Sprintf("%s: sweep of %s: %v", m.Name, fn.Name(), err))
			continue
		}
		reps = append(reps, rep)
	}
	for name := range table {
		if !seen[name] && opt.OnlyFunc == "" {
			errs = append(errs, fmt.Sprintf("%s: method %s of the authorisation table not found in %s (contract out of date)", m.Name, name, strings.TrimPrefix(m.PkgRel, "./")))
		}
	}
	return
}

// manifestName is the name under which the compiler exports a Go function.
func manifestName(goName string) string {
	if goName == "" {
		return goName
	}
	return strings.ToLower(goName[:1]) + goName[1:]
}

var safeRe = regexp.MustCompile(`(?s)safemethods:\s*\[(.*?)\]`)
var overloadRe = regexp.MustCompile(`(?m)^\s+(\w+):\s*(\w+)\s*$`)

// safeMethods reads the safemethods list (and overloads) of a contract's config.yml.
func safeMethods(path string) map[string]bool {
	out := map[string]bool{}
	b, err := os.ReadFile(path)
	if err != nil {
		return out
	}
	if m := safeRe.FindSubmatch(b); m != nil {
		for _, it := range strings.Split(string(m[1]), ",") {
			it = strings.Trim(strings.TrimSpace(it), "\"'")
			if it != "" {
				out[it] = true
			}
		}
	}
	// overloads: goName: exportedName
	if i := strings.Index(string(b), "overloads:"); i >= 0 {
		rest := string(b)[i+len("overloads:"):]
		for _, ln := range strings.Split(rest, "\n")[1:] {
			if m := overloadRe.FindStringSubmatch(ln); m != nil {
				if out[m[2]] {
					out[m[1]] = true
				}
			} else if strings.TrimSpace(ln) != "" {
				break
			}
		}
	}
	return out
}
