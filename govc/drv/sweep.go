package drv

import (
	"fmt"
	"strings"

	"golang.org/x/tools/go/packages"

	"govc/spec"
	"govc/sym"
)

// sweepModule runs the authorisation sweep of a module that carries a witness table.
func sweepModule(pkgs []*packages.Package, target *packages.Package, m *Module, opt Options) (reps []*sym.FuncReport, errs []string) {
	e := sym.New(pkgs)
	e.Sweep = true
	for _, p := range pkgs {
		e.LoadGlobals(p.PkgPath)
	}
	table := map[string]*spec.WitnessReq{}
	for i := range m.Spec.Witness {
		w := &m.Spec.Witness[i]
		table[w.Method] = w
	}
	seen := map[string]bool{}
	for _, fn := range e.ExportedFuncs(target.PkgPath) {
		if opt.OnlyFunc != "" && fn.Name() != opt.OnlyFunc {
			continue
		}
		if fn.Name() == "_deploy" {
			continue // reachable only from the native Management contract
		}
		w := table[fn.Name()]
		seen[fn.Name()] = true
		rep, err := e.SweepMethod(target.PkgPath, fn, w, m.Spec)
		if err != nil {
			errs = append(errs, fmt.Sprintf("%s: sweep of %s: %v", m.Name, fn.Name(), err))
			continue
		}
		reps = append(reps, rep)
	}
	for name := range table {
		if !seen[name] && opt.OnlyFunc == "" {
			errs = append(errs, fmt.Sprintf("%s: method %s of the authorisation table not found in %s (contract out of date)", m.Name, name, strings.TrimPrefix(m.PkgRel, "./")))
		}
	}
	return
}
