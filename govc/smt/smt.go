// Package smt builds solver queries, instantiates quantified hypotheses on the
// engine side (ground stage) and races the installed solvers.
package smt

import (
	"context"
	"fmt"
	"os"
	"os/exec"
	"sort"
	"strings"
	"sync"
	"time"

	"govc/sx"
)

// Var is a bound or declared variable.
type Var struct{ Name, Sort string }

// Quant is a universally quantified hypothesis with triggers.
type Quant struct {
	Name string
	Vars []Var
	Body *sx.T
	Pats [][]*sx.T // alternative multi-patterns
}

// Query is one sub-goal: prove Goal from Hyps and Quants.
type Query struct {
	Name   string
	Decls  []string // sort/datatype/function declarations, in order
	Consts []Var    // declared constants
	Quants []Quant
	Hyps   []*sx.T
	Goal   *sx.T
	Values []*sx.T // terms to evaluate in a counterexample
}

type Result struct {
	Status      string // unsat | sat | unknown
	Stage       string // ground | quant
	Solver      string
	Seconds     float64
	Model       map[string]string // term -> value (ground stage sat)
	Raw         string
	Insts       int
	Size        int
	GoalSkolems []SkInfo
	Weak        bool // ground stage sat on an instantiated query with quantifiers whose quantified stage was inconclusive
}

var interpreted = map[string]bool{
	"and": true, "or": true, "not": true, "=>": true, "=": true, "ite": true, "distinct": true,
	"+": true, "-": true, "*": true, "div": true, "mod": true, "<": true, "<=": true, ">": true, ">=": true,
	"forall": true, "exists": true, "let": true, "!": true, "store": true, "str.++": true, "str.len": true,
	"true": true, "false": true, "_": true, "abs": true,
}

// negation normal form pieces -------------------------------------------------

type prep struct {
	q      *Query
	fresh  int
	extra  []Var
	hyps   []*sx.T
	qs     []Quant
	inGoal bool     // skolems created while negating the goal are the witnesses of the violation
	goalSk []SkInfo // in order of creation
	curVar string
}

// SkInfo describes one Skolem constant standing for a universally quantified variable of the goal.
type SkInfo struct {
	Name string // sk!N
	Var  string // the bound variable it replaces (without the ?N suffix)
	Sort string
}

func (p *prep) sk(sort string) *sx.T {
	p.fresh++
	n := fmt.Sprintf("sk!%d", p.fresh)
	p.extra = append(p.extra, Var{n, sort})
	if p.inGoal {
		v := p.curVar
		if i := strings.Index(v, "?"); i >= 0 {
			v = v[:i]
		}
		p.goalSk = append(p.goalSk, SkInfo{Name: n, Var: v, Sort: sort})
	}
	return sx.Atom(n)
}

func bindersOf(t *sx.T) []Var {
	var vs []Var
	for _, b := range t.L[1].L {
		vs = append(vs, Var{b.L[0].A, b.L[1].String()})
	}
	return vs
}

func stripBang(body *sx.T) (*sx.T, [][]*sx.T) {
	if body.Head() != "!" {
		return body, nil
	}
	var pats [][]*sx.T
	rest := body.L[2:]
	for i := 0; i+1 < len(rest); i += 2 {
		if rest[i].A == ":pattern" {
			pats = append(pats, rest[i+1].L)
		}
	}
	return body.L[1], pats
}

// pos adds formula f as a hypothesis.
func (p *prep) pos(f *sx.T) {
	switch f.Head() {
	case "and":
		for _, x := range f.L[1:] {
			p.pos(x)
		}
		return
	case "forall":
		body, pats := stripBang(f.L[2])
		p.qs = append(p.qs, Quant{Name: fmt.Sprintf("h%d", len(p.qs)), Vars: bindersOf(f), Body: body, Pats: pats})
		return
	case "exists":
		env := map[string]*sx.T{}
		for _, v := range bindersOf(f) {
			p.curVar = v.Name
			env[v.Name] = p.sk(v.Sort)
		}
		body, _ := stripBang(f.L[2])
		p.pos(sx.Subst(body, env))
		return
	case "not":
		p.neg(f.L[1])
		return
	case "=>":
		// c => (A and B)  and  c => forall x. B   (facts learnt on a branch and merged): distribute the condition
		if len(f.L) == 3 {
			c, rhs := f.L[1], f.L[2]
			switch rhs.Head() {
			case "and":
				for _, x := range rhs.L[1:] {
					p.pos(sx.App("=>", c, x))
				}
				return
			case "forall":
				body, pats := stripBang(rhs.L[2])
				p.qs = append(p.qs, Quant{Name: fmt.Sprintf("h%d", len(p.qs)), Vars: bindersOf(rhs), Body: sx.App("=>", c, body), Pats: pats})
				return
			case "=>":
				if len(rhs.L) == 3 && (rhs.L[2].Head() == "forall" || rhs.L[2].Head() == "and") {
					p.pos(sx.App("=>", sx.And(c, rhs.L[1]), rhs.L[2]))
					return
				}
			}
		}
	}
	p.hyps = append(p.hyps, f)
}

// neg adds the negation of f as hypotheses (f is what we want to prove).
func (p *prep) neg(f *sx.T) {
	switch f.Head() {
	case "forall":
		env := map[string]*sx.T{}
		for _, v := range bindersOf(f) {
			p.curVar = v.Name
			env[v.Name] = p.sk(v.Sort)
		}
		body, _ := stripBang(f.L[2])
		p.neg(sx.Subst(body, env))
		return
	case "=>":
		p.pos(f.L[1])
		if len(f.L) == 3 {
			p.neg(f.L[2])
		} else {
			p.neg(sx.App("=>", f.L[2:]...))
		}
		return
	case "or":
		for _, x := range f.L[1:] {
			p.neg(x)
		}
		return
	case "not":
		p.pos(f.L[1])
		return
	}
	p.hyps = append(p.hyps, sx.Not(f))
}

// SplitGoal splits a conjunction goal into separate goals (also under => and forall).
func SplitGoal(g *sx.T) []*sx.T {
	switch g.Head() {
	case "and":
		var out []*sx.T
		for _, x := range g.L[1:] {
			out = append(out, SplitGoal(x)...)
		}
		return out
	case "=>":
		if len(g.L) == 3 {
			var out []*sx.T
			for _, x := range SplitGoal(g.L[2]) {
				out = append(out, sx.App("=>", g.L[1], x))
			}
			return out
		}
	case "forall":
		body, _ := stripBang(g.L[2])
		var out []*sx.T
		for _, x := range SplitGoal(body) {
			out = append(out, sx.List(g.L[0], g.L[1], x))
		}
		return out
	case "exists":
		if w := witnessByUnification(g); w != nil {
			return SplitGoal(w)
		}
	}
	return []*sx.T{g}
}

// witnessByUnification: a goal (exists (x..) (and .. (= (ev_f a..) (ev_f x..)) ..)) whose bound variables are all
// determined by equations between two applications of the same ghost-event constructor is replaced by its body at that
// witness (proving the instance proves the existential; nothing is lost but completeness if another witness was meant).
func witnessByUnification(g *sx.T) *sx.T {
	if len(g.L) != 3 {
		return nil
	}
	vars := map[string]bool{}
	for _, b := range g.L[1].L {
		if len(b.L) == 2 && b.L[0].IsAtom() {
			vars[b.L[0].A] = true
		}
	}
	body, _ := stripBang(g.L[2])
	var conj []*sx.T
	if body.Head() == "and" {
		conj = body.L[1:]
	} else {
		conj = []*sx.T{body}
	}
	env := map[string]*sx.T{}
	uncertain := false // the witness was taken from one alternative of a case distinction: keep the existential as the other disjunct
	for _, c := range conj {
		if c.Head() != "=" || len(c.L) != 3 {
			continue
		}
		// either side may be an ite chain over the events a log holds at a symbolic index: every event leaf is a candidate
		// (the instance is still proved by the solver, so a wrong candidate costs completeness only)
		var leaves func(t *sx.T) []*sx.T
		leaves = func(t *sx.T) []*sx.T {
			if t.Head() == "ite" && len(t.L) == 4 {
				return append(leaves(t.L[2]), leaves(t.L[3])...)
			}
			return []*sx.T{t}
		}
		done := false
		if len(leaves(c.L[1])) > 1 || len(leaves(c.L[2])) > 1 {
			uncertain = true
		}
		for _, a := range leaves(c.L[1]) {
			for _, b := range leaves(c.L[2]) {
				if done || a.IsAtom() || b.IsAtom() || a.Head() != b.Head() || !strings.HasPrefix(a.Head(), "ev_") || len(a.L) != len(b.L) {
					continue
				}
				if e := looseMatch(b, a, vars, env); e != nil {
					env, done = e, true
				} else if e := looseMatch(a, b, vars, env); e != nil {
					env, done = e, true
				}
			}
		}
	}
	for v := range vars {
		if _, ok := env[v]; !ok {
			return nil
		}
	}
	if uncertain {
		return sx.Or(sx.Subst(body, env), g)
	}
	return sx.Subst(body, env)
}

// instantiation ---------------------------------------------------------------

// looseMatch binds the variables of p where p and t have the same shape; ground parts of p that differ from t are left
// to the solver (the instance still states their equality).
func looseMatch(p, t *sx.T, vars map[string]bool, env map[string]*sx.T) map[string]*sx.T {
	hasVar := false
	sx.Walk(p, func(x *sx.T) bool {
		if x.IsAtom() && vars[x.A] {
			hasVar = true
		}
		return !hasVar
	})
	if !hasVar {
		return env
	}
	if p.IsAtom() {
		if cur, ok := env[p.A]; ok {
			if sx.Eq(cur, t) {
				return env
			}
			return nil
		}
		e := make(map[string]*sx.T, len(env)+1)
		for k, v := range env {
			e[k] = v
		}
		e[p.A] = t
		return e
	}
	if t.IsAtom() || p.Head() != t.Head() || len(p.L) != len(t.L) {
		return nil
	}
	for i := range p.L {
		if i == 0 && p.L[0].IsAtom() {
			continue
		}
		env = looseMatch(p.L[i], t.L[i], vars, env)
		if env == nil {
			return nil
		}
	}
	return env
}

func match(p, t *sx.T, vars map[string]bool, env map[string]*sx.T) map[string]*sx.T {
	if p.IsAtom() {
		if vars[p.A] {
			if cur, ok := env[p.A]; ok {
				if sx.Eq(cur, t) {
					return env
				}
				return nil
			}
			e := make(map[string]*sx.T, len(env)+1)
			for k, v := range env {
				e[k] = v
			}
			e[p.A] = t
			return e
		}
		if t.IsAtom() && t.A == p.A {
			return env
		}
		return nil
	}
	if t.IsAtom() || len(p.L) != len(t.L) {
		return nil
	}
	for i := range p.L {
		env = match(p.L[i], t.L[i], vars, env)
		if env == nil {
			return nil
		}
	}
	return env
}

func groundSubterms(t *sx.T, acc map[string]*sx.T) {
	if t.IsAtom() {
		return
	}
	h := t.Head()
	if h == "forall" || h == "exists" || h == "let" {
		return
	}
	if h != "" {
		acc[t.String()] = t
	}
	for _, x := range t.L {
		groundSubterms(x, acc)
	}
}

// inferPatterns picks smallest uninterpreted applications covering all vars.
func inferPatterns(q Quant) [][]*sx.T {
	vars := map[string]bool{}
	for _, v := range q.Vars {
		vars[v.Name] = true
	}
	type cand struct {
		t    *sx.T
		vars map[string]bool
		size int
	}
	var cands []cand
	seen := map[string]bool{}
	var rec func(t *sx.T) map[string]bool
	rec = func(t *sx.T) map[string]bool {
		if t.IsAtom() {
			if vars[t.A] {
				return map[string]bool{t.A: true}
			}
			return nil
		}
		h := t.Head()
		if h == "forall" || h == "exists" {
			return nil
		}
		vs := map[string]bool{}
		for _, x := range t.L {
			for v := range rec(x) {
				vs[v] = true
			}
		}
		if len(vs) > 0 && h != "" && !interpreted[h] && !strings.HasPrefix(h, "str.") && !seen[t.String()] {
			seen[t.String()] = true
			cands = append(cands, cand{t, vs, len(t.String())})
		}
		return vs
	}
	rec(q.Body)
	sort.Slice(cands, func(i, j int) bool { return cands[i].size < cands[j].size })
	var pats [][]*sx.T
	for _, c := range cands {
		if len(c.vars) == len(vars) {
			pats = append(pats, []*sx.T{c.t})
			if len(pats) == 3 {
				break
			}
		}
	}
	return pats
}

// maxGen bounds how often instantiation may build on terms that instantiation itself created.
const maxGen = 8

// redundantNest reports terms of the shape snapN_key(snapN_idx(...)) / snapN_idx(snapN_key(...)):
// the snapshot axioms make them equal to their argument, so matching on them only feeds a matching loop.
func redundantNest(t *sx.T) bool {
	// skey(S, P, sidx(S, P, skey(S, P, ...))) and deeper: the snapshot axioms make the outer two applications
	// cancel, so matching on them only feeds a matching loop. One level, skey(S, P, sidx(S, P, k)), is needed to
	// instantiate loop invariants at the position of a key.
	depth := 0
	for len(t.L) == 4 && (t.Head() == "skey" || t.Head() == "sidx") {
		in := t.L[3]
		if len(in.L) == 4 && in.Head() != t.Head() && (in.Head() == "skey" || in.Head() == "sidx") && sx.Eq(in.L[1], t.L[1]) && sx.Eq(in.L[2], t.L[2]) {
			depth++
			t = in
			continue
		}
		break
	}
	return depth >= 2
}

func containsRedundantNest(t *sx.T) bool {
	found := false
	sx.Walk(t, func(s *sx.T) bool {
		if found {
			return false
		}
		if redundantNest(s) {
			found = true
			return false
		}
		return true
	})
	return found
}

// Instantiate performs the ground stage instantiation.
func instantiate(qs []Quant, ground []*sx.T, rounds, maxInst int) []*sx.T {
	defs := map[string]*sx.T{}
	for _, g := range ground {
		if g.Head() == "=" && len(g.L) == 3 && g.L[1].IsAtom() {
			defs[g.L[1].A] = g.L[2]
		}
	}
	var bases func(s *sx.T, depth int, acc map[string]*sx.T)
	bases = func(s *sx.T, depth int, acc map[string]*sx.T) {
		if depth > 10 {
			return
		}
		if s.IsAtom() {
			if d, ok := defs[s.A]; ok {
				acc[d.String()] = d
				bases(d, depth+1, acc)
			}
			return
		}
		switch s.Head() {
		case "store":
			acc[s.L[1].String()] = s.L[1]
			bases(s.L[1], depth+1, acc)
		case "ite":
			for _, x := range s.L[2:] {
				acc[x.String()] = x
				bases(x, depth+1, acc)
			}
		}
	}
	seen := map[string]bool{}
	var insts []*sx.T
	for i := range qs {
		if len(qs[i].Pats) == 0 {
			qs[i].Pats = inferPatterns(qs[i])
		}
	}
	// generation of every ground term: 0 for the terms of the query, g+1 for terms first seen in an
	// instance built from terms of generation <= g
	gen := map[string]int{}
	terms := map[string]*sx.T{}
	addTerms := func(t *sx.T, g int) {
		acc := map[string]*sx.T{}
		groundSubterms(t, acc)
		for k, v := range acc {
			if _, ok := gen[k]; !ok {
				gen[k] = g
				terms[k] = v
			}
		}
	}
	for _, g := range ground {
		addTerms(g, 0)
	}
	for r := 0; r < rounds; r++ {
		extra := map[string]*sx.T{}
		for k, t := range terms {
			if t.Head() == "select" && len(t.L) == 3 {
				bs := map[string]*sx.T{}
				bases(t.L[1], 0, bs)
				for _, b := range bs {
					if b.IsAtom() || (b.Head() != "store" && b.Head() != "ite") {
						n := sx.App("select", b, t.L[2])
						if _, ok := gen[n.String()]; !ok {
							extra[n.String()] = n
							gen[n.String()] = gen[k]
						}
					}
				}
			}
		}
		for k, v := range extra {
			terms[k] = v
		}
		keys := make([]string, 0, len(terms))
		for k, t := range terms {
			if gen[k] <= maxGen && !containsRedundantNest(t) {
				keys = append(keys, k)
			}
		}
		sort.Strings(keys)
		type finst struct {
			t *sx.T
			g int
		}
		var fresh []finst
		for _, q := range qs {
			vars := map[string]bool{}
			for _, v := range q.Vars {
				vars[v.Name] = true
			}
			for _, pat := range q.Pats {
				type menv struct {
					env map[string]*sx.T
					g   int
				}
				envs := []menv{{map[string]*sx.T{}, 0}}
				for _, p := range pat {
					var nxt []menv
					for _, me := range envs {
						for _, k := range keys {
							if e := match(p, terms[k], vars, me.env); e != nil {
								g := me.g
								if gen[k] > g {
									g = gen[k]
								}
								nxt = append(nxt, menv{e, g})
							}
						}
					}
					envs = nxt
					if len(envs) > 4000 {
						envs = envs[:4000]
					}
				}
				for _, me := range envs {
					if len(me.env) != len(q.Vars) {
						continue
					}
					inst := sx.Subst(q.Body, me.env)
					if !seen[inst.String()] {
						seen[inst.String()] = true
						fresh = append(fresh, finst{inst, me.g + 1})
					}
				}
			}
		}
		if len(fresh) == 0 {
			break
		}
		for _, f := range fresh {
			insts = append(insts, f.t)
			addTerms(f.t, f.g)
		}
		if len(insts) > maxInst {
			break
		}
	}
	return insts
}

// text generation -------------------------------------------------------------

func (q *Query) text(p *prep, insts []*sx.T, withQuants bool, seed int) string {
	var b strings.Builder
	b.WriteString("(set-option :produce-models true)\n(set-logic ALL)\n")
	for _, d := range q.Decls {
		b.WriteString(d)
		b.WriteByte('\n')
	}
	for _, c := range q.Consts {
		fmt.Fprintf(&b, "(declare-const %s %s)\n", c.Name, c.Sort)
	}
	for _, c := range p.extra {
		fmt.Fprintf(&b, "(declare-const %s %s)\n", c.Name, c.Sort)
	}
	if withQuants {
		for _, qq := range p.qs {
			b.WriteString("(assert (forall (")
			for _, v := range qq.Vars {
				fmt.Fprintf(&b, "(%s %s)", v.Name, v.Sort)
			}
			b.WriteString(") ")
			if len(qq.Pats) > 0 {
				b.WriteString("(! " + qq.Body.String())
				for _, pat := range qq.Pats {
					b.WriteString(" :pattern (")
					for i, x := range pat {
						if i > 0 {
							b.WriteByte(' ')
						}
						b.WriteString(x.String())
					}
					b.WriteString(")")
				}
				b.WriteString(")")
			} else {
				b.WriteString(qq.Body.String())
			}
			b.WriteString("))\n")
		}
	}
	for _, h := range p.hyps {
		fmt.Fprintf(&b, "(assert %s)\n", h)
	}
	for _, h := range insts {
		fmt.Fprintf(&b, "(assert %s)\n", h)
	}
	b.WriteString("(check-sat)\n")
	if !withQuants {
		// the counterexample: parameters, every pre-state cell read on the path, every witness consulted
		vals := map[string]*sx.T{}
		for _, v := range q.Values {
			vals[v.String()] = v
		}
		scan := func(ts []*sx.T) {
			for _, t := range ts {
				sx.Walk(t, func(s *sx.T) bool {
					switch {
					case s.Head() == "forall" || s.Head() == "exists":
						return false
					case s.Head() == "select" && len(s.L) == 3 && s.L[1].IsAtom() && s.L[1].A == "store0":
						vals[s.String()] = s
						vals[s.L[2].String()] = s.L[2]
					case strings.HasPrefix(s.Head(), "deser_") && len(s.L) == 2 && strings.Contains(s.L[1].String(), "(select store0 "):
						vals[s.String()] = s
					case s.Head() == "b2i" && len(s.L) == 2 && strings.Contains(s.L[1].String(), "(select store0 "):
						vals[s.String()] = s
					case s.Head() == "W" && len(s.L) == 2:
						vals[s.String()] = s
						vals[s.L[1].String()] = s.L[1]
					}
					return true
				})
			}
		}
		scan(p.hyps)
		scan(insts)
		keys := make([]string, 0, len(vals))
		for k := range vals {
			if !strings.Contains(k, "?") {
				keys = append(keys, k)
			}
		}
		sort.Strings(keys)
		if len(keys) > 0 {
			b.WriteString("(get-value (")
			for _, k := range keys {
				b.WriteString(k + " ")
			}
			b.WriteString("))\n")
		}
	}
	return b.String()
}

// Solvers is the list of back ends raced for each query.
var Solvers = [][]string{{"z3-new"}, {"z3"}, {"cvc5", "--strings-exp"}}

func statusOf(out string) string {
	// A solver error before the verdict (undeclared symbol, sort mismatch) is an engine bug, never a
	// verdict: z3 skips the offending assertion and would answer on the rest. Errors after the verdict
	// (get-value after unsat) are harmless.
	for _, ln := range strings.Split(out, "\n") {
		ln = strings.TrimSpace(ln)
		if ln == "sat" || ln == "unsat" || ln == "unknown" {
			return ln
		}
		if strings.Contains(ln, "(error") {
			return "error"
		}
	}
	return "unknown"
}

func race(text string, timeout time.Duration, dumpTo string) (status, solver, raw string, secs float64) {
	f, err := os.CreateTemp("", "govc*.smt2")
	if err != nil {
		return "unknown", "", err.Error(), 0
	}
	f.WriteString(text)
	f.Close()
	defer os.Remove(f.Name())
	if dumpTo != "" {
		os.WriteFile(dumpTo, []byte(text), 0o644)
	}
	ctx, cancel := context.WithTimeout(context.Background(), timeout)
	defer cancel()
	type res struct {
		st, solver, raw string
		secs            float64
	}
	ch := make(chan res, len(Solvers))
	var wg sync.WaitGroup
	for _, s := range Solvers {
		wg.Add(1)
		go func(s []string) {
			defer wg.Done()
			t0 := time.Now()
			// solver-side time and memory limits are a backstop in case the process outlives this one
			secs := int(timeout.Seconds()) + 2
			var lim []string
			if strings.HasPrefix(s[0], "z3") {
				lim = []string{fmt.Sprintf("-T:%d", secs), "-memory:4096"}
			} else {
				lim = []string{fmt.Sprintf("--tlimit=%d", secs*1000)}
			}
			args := append(append(append([]string{}, s[1:]...), lim...), f.Name())
			out, _ := exec.CommandContext(ctx, s[0], args...).CombinedOutput()
			ch <- res{statusOf(string(out)), s[0], string(out), time.Since(t0).Seconds()}
		}(s)
	}
	best := res{st: "unknown"}
	for range Solvers {
		r := <-ch
		if r.st == "sat" || r.st == "unsat" {
			best = r
			cancel()
			break
		}
		// an error of one back end (syntax it does not accept) is decisive only if no other back end answers
		if best.solver == "" || (r.st == "error" && best.st != "error") {
			best = r
		}
	}
	wg.Wait() // the losers are killed by cancel(); do not leave them behind
	return best.st, best.solver, best.raw, best.secs
}

// Options for Check.
type Options struct {
	Timeout      time.Duration
	QuantTimeout time.Duration
	NoQuantStage bool
	DumpDir      string
	Seed         int
}

// Check decides the query with the two-stage discharge.
func Check(q *Query, opt Options) Result {
	p := &prep{q: q}
	for _, h := range q.Hyps {
		p.pos(h)
	}
	p.qs = append(p.qs, q.Quants...)
	p.inGoal = true
	p.neg(q.Goal)
	p.inGoal = false
	for _, sk := range p.goalSk { // ask for the witnesses of the violation
		q.Values = append(q.Values, sx.Atom(sk.Name))
	}
	insts := instantiate(p.qs, p.hyps, 6, 4000)
	dump := ""
	if opt.DumpDir != "" {
		os.MkdirAll(opt.DumpDir, 0o755)
		dump = opt.DumpDir + "/" + strings.NewReplacer("/", "_", " ", "_").Replace(q.Name) + ".ground.smt2"
	}
	text := q.text(p, insts, false, opt.Seed)
	st, solver, raw, secs := race(text, opt.Timeout, dump)
	r := Result{Status: st, Stage: "ground", Solver: solver, Seconds: secs, Raw: raw, Insts: len(insts), Size: len(text)}
	if st == "unsat" {
		return r
	}
	groundRaw := raw
	if len(p.qs) > 0 && !opt.NoQuantStage {
		if dump != "" {
			dump = strings.Replace(dump, ".ground.", ".quant.", 1)
		}
		text2 := q.text(p, nil, true, opt.Seed)
		t2 := opt.Timeout
		if opt.QuantTimeout > 0 {
			t2 = opt.QuantTimeout
		}
		st2, solver2, raw2, secs2 := race(text2, t2, dump)
		if st2 == "unsat" {
			return Result{Status: "unsat", Stage: "quant", Solver: solver2, Seconds: secs + secs2, Raw: raw2, Insts: len(insts), Size: len(text2)}
		}
	}
	if st == "sat" {
		r.Model = parseValues(groundRaw)
		r.GoalSkolems = p.goalSk
		r.Weak = len(p.qs) > 0 // the model satisfies only the instances the engine chose, not the quantified hypotheses
	}
	return r
}

// NegSkolem returns the negation of goal in the form the ground stage uses: a conjunction in which the goal's
// universally quantified variables are replaced by Skolem constants (returned in order of creation).
func NegSkolem(goal *sx.T) (conj []*sx.T, sks []SkInfo, decls []Var) {
	p := &prep{}
	p.inGoal = true
	p.neg(goal)
	conj = append(conj, p.hyps...)
	for _, q := range p.qs {
		var bs []*sx.T
		for _, v := range q.Vars {
			bs = append(bs, sx.List(sx.Atom(v.Name), sx.Atom(v.Sort)))
		}
		conj = append(conj, sx.List(sx.Atom("forall"), sx.List(bs...), q.Body))
	}
	return conj, p.goalSk, p.extra
}

// parseValues extracts the (get-value ...) answer: list of (term value).
func parseValues(raw string) map[string]string {
	i := strings.Index(raw, "((")
	if i < 0 {
		return nil
	}
	ts, err := sx.Parse(raw[i:])
	if err != nil || len(ts) == 0 {
		return nil
	}
	m := map[string]string{}
	for _, pair := range ts[0].L {
		if len(pair.L) == 2 {
			m[pair.L[0].String()] = pair.L[1].String()
		}
	}
	return m
}
