package spec

import (
	"fmt"
	"strings"
)

type tokKind int

const (
	tEOF tokKind = iota
	tIdent
	tInt
	tStr
	tOp
)

type token struct {
	k    tokKind
	s    string
	line int
	bol  bool // first token on its line
}

func lex(src string) ([]token, error) {
	var out []token
	line := 1
	bol := true
	i, n := 0, len(src)
	emit := func(k tokKind, s string) {
		out = append(out, token{k, s, line, bol})
		bol = false
	}
	ops := []string{"<==>", "==>", "::", "==", "!=", "<=", ">=", "&&", "||", "++", ":=", "(", ")", "[", "]", "{", "}", ",", ".", ":", "?", "<", ">", "+", "-", "*", "/", "%", "!", "=", "$", "\\"}
	for i < n {
		c := src[i]
		switch {
		case c == '\n':
			line++
			bol = true
			i++
		case c == ' ' || c == '\t' || c == '\r':
			i++
		case c == '/' && i+1 < n && src[i+1] == '/':
			for i < n && src[i] != '\n' {
				i++
			}
		case c == '"':
			j := i + 1
			var b strings.Builder
			for j < n && src[j] != '"' {
				if src[j] == '\\' && j+1 < n {
					switch src[j+1] {
					case 'x':
						var v int
						fmt.Sscanf(src[j+2:j+4], "%02x", &v)
						b.WriteByte(byte(v))
						j += 4
						continue
					case 'n':
						b.WriteByte('\n')
					case '\\':
						b.WriteByte('\\')
					case '"':
						b.WriteByte('"')
					default:
						return nil, fmt.Errorf("line %d: bad escape", line)
					}
					j += 2
					continue
				}
				b.WriteByte(src[j])
				j++
			}
			if j >= n {
				return nil, fmt.Errorf("line %d: unterminated string", line)
			}
			emit(tStr, b.String())
			i = j + 1
		case c >= '0' && c <= '9':
			j := i
			for j < n && (src[j] >= '0' && src[j] <= '9' || src[j] == '_') {
				j++
			}
			emit(tInt, strings.ReplaceAll(src[i:j], "_", ""))
			i = j
		case c == '_' || c >= 'a' && c <= 'z' || c >= 'A' && c <= 'Z':
			j := i
			for j < n && (src[j] == '_' || src[j] >= 'a' && src[j] <= 'z' || src[j] >= 'A' && src[j] <= 'Z' || src[j] >= '0' && src[j] <= '9') {
				j++
			}
			emit(tIdent, src[i:j])
			i = j
		default:
			matched := false
			for _, op := range ops {
				if strings.HasPrefix(src[i:], op) {
					emit(tOp, op)
					i += len(op)
					matched = true
					break
				}
			}
			if !matched {
				return nil, fmt.Errorf("line %d: unexpected character %q", line, c)
			}
		}
	}
	out = append(out, token{tEOF, "", line, true})
	return out, nil
}
