package spec

import (
	"fmt"
	"strings"
)

// ---- AST -------------------------------------------------------------------

type Expr interface{}

type (
	EInt   struct{ V string }
	EStr   struct{ V string }
	EBool  struct{ V bool }
	ENil   struct{}
	EIdent struct{ Name string }
	EUnary struct {
		Op string
		X  Expr
	}
	EBinary struct {
		Op   string
		X, Y Expr
	}
	ECond struct{ C, A, B Expr }
	ECall struct {
		Fn   string
		Args []Expr
	}
	EMethod struct {
		X    Expr
		Name string
		Args []Expr
	}
	EField struct {
		X    Expr
		Name string
	}
	EIndex  struct{ X, I Expr }
	ESlice  struct{ X, Lo, Hi Expr }
	EOld    struct{ X Expr }
	EStruct struct {
		Type  string
		Elems []Expr
	}
	EList  struct{ Elems []Expr }
	EQuant struct {
		Forall   bool
		Vars     []Param
		Triggers [][]Expr
		Body     Expr
	}
)

type Param struct{ Name, Type string }

type PureDecl struct {
	Opaque bool // translated as an uninterpreted function; its definition is an axiom only where revealed
	Name   string
	Params []Param
	Result string
	Body   Expr
}

type FoldDecl struct {
	Name    string
	Store   string // parameter name
	Result  string
	KeyVar  string
	Where   Expr
	Summand Expr
}

type InvDecl struct {
	Using   []string // earlier lemmas of the module used as hypotheses
	Reveal  []string
	Name    string
	Tags    []string
	Body    Expr
	Finding string
	Region  Expr
	Text    string
}

type Clause struct {
	Kind string // requires | ensures
	Tags []string
	E    Expr
	Text string
	Ord  int
	// Finding names a known finding whose region is excluded in the ".except" form of the clause.
	Finding string
	Region  Expr
}

type LoopSpec struct {
	Ord  int
	Invs []Clause
}

type FuncSpec struct {
	Imported  bool   // contract taken from another module of the same package (used at call sites, verified there)
	Name      string // "transfer" or "Token.transfer"
	Params    []string
	Results   []string
	Clauses   []Clause
	Pure      bool
	Trusted   bool
	ViewOf    string // `view <module>`: a weaker view of the contract verified in that module of the same package (clauses checked to be a subset)
	Closure   bool   // the contract is about the function literal this function returns (its free variables are the outer parameters)
	InputOnly bool   // `inputs`: the spec only states input assumptions (requires) of an exported method for the invariant sweep; the body is executed there
	Inline    bool   // the spec only carries loop invariants: the function is inlined at every call site (e.g. it takes an iterator)
	WideInt   bool   // 64-bit integer arithmetic of this function is treated as mathematical (stated assumption; narrower types are checked)
	Logged    bool   // every call is recorded in the ghost log xcalls("<Func>") and its first result as cres("<Func>", i)
	Nofault   bool
	Reveal    []string // opaque pure functions whose definitions this proof may use
	Given     Expr     // condition under which no fault may occur
	GivenText string
	Loops     []LoopSpec
}

// WitnessReq is one line of the authorisation table: method -> required witness formula.
type WitnessReq struct {
	Method string
	Tags   []string
	Req    Expr
	Text   string
	Safe   bool // the method must never change state
}

type UFun struct {
	Name   string
	Params []Param
	Result string
}

type File struct {
	Module  string      // module name (identifier)
	Props   []string    // properties this module serves
	UseMods [][2]string // (package name, module name) pairs whose contracts are visible to callers
	RefInvs []*InvDecl  // invariants of used modules: can be named in clauses here (they are proved in their own module)
	Relies  [][3]string // (package name, module name, invariant): a package invariant proved in another module, assumed on entry of exported methods here
	Witness []WitnessReq
	UFuns   map[string]*UFun
	Axioms  []*InvDecl
	Dialect string
	Uses    []string
	Pures   map[string]*PureDecl
	Folds   map[string]*FoldDecl
	Invs    []*InvDecl
	Funcs   map[string]*FuncSpec
	Lemmas  []*InvDecl
}

// ---- parser ----------------------------------------------------------------

type parser struct {
	toks []token
	pos  int
	src  []string
}

var declKw = map[string]bool{"dialect": true, "use": true, "pure": true, "pred": true, "fold": true, "invariant": true,
	"ghost": true, "lemma": true, "module": true, "props": true, "opaque": true, "reveal": true, "logged": true, "witness": true, "safe": true, "func": true, "ufun": true, "axiom": true, "nofault": true, "requires": true, "ensures": true, "cover": true, "loop": true, "frame": true, "trusted": true, "inline": true, "inputs": true, "view": true, "closure": true, "relies": true, "wideint": true}

func (p *parser) peek() token { return p.toks[p.pos] }
func (p *parser) next() token { t := p.toks[p.pos]; p.pos++; return t }
func (p *parser) isOp(s string) bool {
	t := p.peek()
	return t.k == tOp && t.s == s
}
func (p *parser) isKw(s string) bool {
	t := p.peek()
	return t.k == tIdent && t.s == s
}
func (p *parser) expectOp(s string) {
	t := p.next()
	if t.k != tOp || t.s != s {
		panic(fmt.Sprintf("line %d: expected %q, got %q", t.line, s, t.s))
	}
}
func (p *parser) ident() string {
	t := p.next()
	if t.k != tIdent {
		panic(fmt.Sprintf("line %d: expected identifier, got %q", t.line, t.s))
	}
	return t.s
}

// atClauseEnd: the next token starts a new declaration/clause.
func (p *parser) atBoundary() bool {
	t := p.peek()
	return t.k == tEOF || (t.bol && t.k == tIdent && declKw[t.s])
}

// Parse parses one contract block.
func Parse(src string) (f *File, err error) {
	defer func() {
		if r := recover(); r != nil {
			err = fmt.Errorf("spec: %v", r)
		}
	}()
	toks, lerr := lex(src)
	if lerr != nil {
		return nil, lerr
	}
	p := &parser{toks: toks, src: strings.Split(src, "\n")}
	f = &File{Pures: map[string]*PureDecl{}, Folds: map[string]*FoldDecl{}, Funcs: map[string]*FuncSpec{}, UFuns: map[string]*UFun{}}
	var cur *FuncSpec
	var curLoop *LoopSpec
	for p.peek().k != tEOF {
		t := p.next()
		if t.k != tIdent {
			panic(fmt.Sprintf("line %d: unexpected %q", t.line, t.s))
		}
		switch t.s {
		case "dialect":
			f.Dialect = p.ident()
		case "module":
			f.Module = p.ident()
		case "props":
			for !p.atBoundary() {
				f.Props = append(f.Props, p.ident())
				if p.isOp(",") {
					p.next()
				}
			}
		case "use":
			pk := p.ident()
			f.Uses = append(f.Uses, pk)
			if !p.atBoundary() {
				f.UseMods = append(f.UseMods, [2]string{pk, p.ident()})
			}
		case "relies":
			pk := p.ident()
			mod := p.ident()
			f.Relies = append(f.Relies, [3]string{pk, mod, p.ident()})
		case "witness", "safe":
			cur, curLoop = nil, nil
			w := WitnessReq{Method: p.ident(), Safe: t.s == "safe"}
			w.Tags = p.tags()
			if !w.Safe {
				p.expectOp(":")
				start := p.peek().line
				w.Req = p.expr()
				w.Text = p.textFrom(start)
			}
			f.Witness = append(f.Witness, w)
		case "opaque":
			cur, curLoop = nil, nil
			if p.ident() != "pure" {
				panic(fmt.Sprintf("line %d: expected `opaque pure`", t.line))
			}
			d := &PureDecl{Name: p.ident(), Opaque: true}
			d.Params = p.params()
			d.Result = p.typ()
			p.expectOp("=")
			d.Body = p.expr()
			f.Pures[d.Name] = d
		case "reveal":
			if cur == nil {
				panic(fmt.Sprintf("line %d: reveal outside func", t.line))
			}
			curLoop = nil
			for !p.atBoundary() {
				cur.Reveal = append(cur.Reveal, p.ident())
				if p.isOp(",") {
					p.next()
				}
			}
		case "pure", "pred":
			if t.s == "pure" && cur != nil && p.atBoundary() {
				cur.Pure = true
				continue
			}
			cur, curLoop = nil, nil
			d := &PureDecl{Name: p.ident()}
			d.Params = p.params()
			if t.s == "pred" {
				d.Result = "Bool"
			} else {
				d.Result = p.typ()
			}
			p.expectOp("=")
			d.Body = p.expr()
			f.Pures[d.Name] = d
		case "fold":
			cur, curLoop = nil, nil
			d := &FoldDecl{Name: p.ident()}
			ps := p.params()
			d.Store = ps[0].Name
			d.Result = p.typ()
			p.expectOp("=")
			if p.ident() != "sum" {
				panic("fold: expected sum")
			}
			d.KeyVar = p.ident()
			p.ident() // in
			p.ident() // keys
			p.expectOp("(")
			p.ident()
			p.expectOp(")")
			if p.ident() != "where" {
				panic("fold: expected where")
			}
			d.Where = p.expr()
			p.expectOp(":")
			d.Summand = p.expr()
			f.Folds[d.Name] = d
		case "invariant":
			if curLoop != nil {
				start := p.peek().line
				e := p.expr()
				curLoop.Invs = append(curLoop.Invs, Clause{Kind: "invariant", E: e, Text: p.textFrom(start), Ord: len(curLoop.Invs)})
				continue
			}
			cur = nil
			d := &InvDecl{Name: p.ident()}
			d.Tags = p.tags()
			p.expectOp("=")
			d.Body = p.expr()
			f.Invs = append(f.Invs, d)
		case "ufun":
			cur, curLoop = nil, nil
			u := &UFun{Name: p.ident()}
			u.Params = p.params()
			u.Result = p.typ()
			f.UFuns[u.Name] = u
		case "axiom":
			cur, curLoop = nil, nil
			d := &InvDecl{Name: p.ident()}
			p.expectOp(":")
			d.Body = p.expr()
			f.Axioms = append(f.Axioms, d)
		case "lemma":
			cur, curLoop = nil, nil
			d := &InvDecl{Name: p.ident()}
			d.Tags = p.tags()
			d.Finding, d.Region = p.finding()
			for p.isKw("reveal") || p.isKw("using") {
				kw := p.next().s
				for !p.isOp(":") && !p.isKw("reveal") && !p.isKw("using") {
					if kw == "reveal" {
						d.Reveal = append(d.Reveal, p.ident())
					} else {
						d.Using = append(d.Using, p.ident())
					}
					if p.isOp(",") {
						p.next()
					}
				}
			}
			p.expectOp(":")
			start := p.peek().line
			d.Body = p.expr()
			d.Text = p.textFrom(start)
			f.Lemmas = append(f.Lemmas, d)
		case "func":
			curLoop = nil
			cur = &FuncSpec{}
			if p.isOp("(") { // receiver: (t Token)
				p.next()
				p.ident()
				recv := p.ident()
				p.expectOp(")")
				cur.Name = recv + "." + p.ident()
			} else {
				cur.Name = p.ident()
			}
			if p.isOp("(") && !p.peek().bol {
				cur.Params = p.names()
				if p.isOp("(") && !p.peek().bol {
					cur.Results = p.names()
				}
			}
			f.Funcs[cur.Name] = cur
		case "requires", "ensures", "cover":
			if cur == nil {
				panic(fmt.Sprintf("line %d: clause outside func", t.line))
			}
			curLoop = nil
			tags := p.tags()
			fname, region := p.finding()
			start := p.peek().line
			e := p.expr()
			n := 0
			for _, c := range cur.Clauses {
				if c.Kind == t.s {
					n++
				}
			}
			cur.Clauses = append(cur.Clauses, Clause{Kind: t.s, Tags: tags, E: e, Text: p.textFrom(start), Ord: n, Finding: fname, Region: region})
		case "trusted":
			cur.Trusted = true
		case "inline":
			cur.Inline = true
		case "inputs":
			cur.InputOnly = true
			cur.Inline = true
		case "closure":
			cur.Closure = true
		case "view":
			cur.ViewOf = p.ident()
			cur.Trusted = true
		case "wideint":
			cur.WideInt = true
		case "logged":
			cur.Logged = true
		case "nofault":
			cur.Nofault = true
			curLoop = nil
			if p.isKw("given") {
				p.next()
				start := p.peek().line
				cur.Given = p.expr()
				cur.GivenText = p.textFrom(start)
			}
		case "loop":
			n := p.next()
			var ord int
			fmt.Sscanf(n.s, "%d", &ord)
			cur.Loops = append(cur.Loops, LoopSpec{Ord: ord})
			curLoop = &cur.Loops[len(cur.Loops)-1]
		default:
			panic(fmt.Sprintf("line %d: unknown declaration %q", t.line, t.s))
		}
	}
	return f, nil
}

func (p *parser) textFrom(startLine int) string {
	end := p.toks[p.pos-1].line
	if startLine < 1 {
		startLine = 1
	}
	var parts []string
	for l := startLine; l <= end && l <= len(p.src); l++ {
		parts = append(parts, strings.TrimSpace(p.src[l-1]))
	}
	return strings.Join(parts, " ")
}

// finding parses an optional `finding NAME (region)` prefix of a clause.
func (p *parser) finding() (string, Expr) {
	if !p.isKw("finding") {
		return "", nil
	}
	p.next()
	name := p.ident()
	p.expectOp("(")
	r := p.expr()
	p.expectOp(")")
	return name, r
}

func (p *parser) tags() []string {
	if !p.isOp("[") {
		return nil
	}
	p.next()
	var out []string
	for !p.isOp("]") {
		out = append(out, p.ident())
		if p.isOp(",") {
			p.next()
		}
	}
	p.next()
	return out
}

func (p *parser) names() []string {
	p.expectOp("(")
	var out []string
	for !p.isOp(")") {
		out = append(out, p.ident())
		if p.isOp(",") {
			p.next()
		}
	}
	p.next()
	return out
}

func (p *parser) typ() string {
	if p.isOp("[") {
		p.next()
		p.expectOp("]")
		return "[]" + p.typ()
	}
	return p.ident()
}

// params: (s, t Store, x Bytes)
func (p *parser) params() []Param {
	p.expectOp("(")
	var out []Param
	var pending []string
	for !p.isOp(")") {
		name := p.ident()
		if p.isOp(",") {
			p.next()
			pending = append(pending, name)
			continue
		}
		if p.isOp(")") { // untyped trailing: treat as name only
			pending = append(pending, name)
			break
		}
		ty := p.typ()
		for _, n := range append(pending, name) {
			out = append(out, Param{n, ty})
		}
		pending = nil
		if p.isOp(",") {
			p.next()
		}
	}
	for _, n := range pending {
		out = append(out, Param{n, ""})
	}
	p.expectOp(")")
	return out
}

// ---- expressions -----------------------------------------------------------

func (p *parser) expr() Expr {
	if p.isKw("forall") || p.isKw("exists") {
		q := &EQuant{Forall: p.next().s == "forall"}
		// binders: a Bytes, j Int
		var pending []string
		for {
			name := p.ident()
			if p.isOp(",") {
				p.next()
				pending = append(pending, name)
				continue
			}
			ty := p.typ()
			for _, n := range append(pending, name) {
				q.Vars = append(q.Vars, Param{n, ty})
			}
			pending = nil
			if p.isOp(",") {
				p.next()
				continue
			}
			break
		}
		for p.isOp("{") {
			p.next()
			var tr []Expr
			for !p.isOp("}") {
				tr = append(tr, p.expr())
				if p.isOp(",") {
					p.next()
				}
			}
			p.next()
			q.Triggers = append(q.Triggers, tr)
		}
		p.expectOp("::")
		q.Body = p.expr()
		return q
	}
	return p.cond()
}

func (p *parser) cond() Expr {
	c := p.iff()
	if p.isOp("?") {
		p.next()
		a := p.expr()
		p.expectOp(":")
		b := p.expr()
		return &ECond{c, a, b}
	}
	return c
}

func (p *parser) iff() Expr {
	x := p.imp()
	for p.isOp("<==>") {
		p.next()
		y := p.imp()
		x = &EBinary{"<==>", x, y}
	}
	return x
}

func (p *parser) imp() Expr {
	x := p.or()
	if p.isOp("==>") {
		p.next()
		var y Expr
		if p.isKw("forall") || p.isKw("exists") {
			y = p.expr()
		} else {
			y = p.imp()
		}
		return &EBinary{"==>", x, y}
	}
	return x
}

func (p *parser) or() Expr {
	x := p.and()
	for p.isOp("||") {
		p.next()
		x = &EBinary{"||", x, p.and()}
	}
	return x
}

func (p *parser) and() Expr {
	x := p.cmp()
	for p.isOp("&&") {
		p.next()
		var y Expr
		if p.isKw("forall") || p.isKw("exists") {
			y = p.expr()
		} else {
			y = p.cmp()
		}
		x = &EBinary{"&&", x, y}
	}
	return x
}

func (p *parser) cmp() Expr {
	x := p.add()
	for {
		t := p.peek()
		if t.k == tOp && (t.s == "==" || t.s == "!=" || t.s == "<" || t.s == "<=" || t.s == ">" || t.s == ">=") {
			p.next()
			y := p.add()
			// chained comparison a <= b < c
			if nt := p.peek(); nt.k == tOp && (nt.s == "<" || nt.s == "<=") && (t.s == "<" || t.s == "<=") {
				p.next()
				z := p.add()
				x = &EBinary{"&&", &EBinary{t.s, x, y}, &EBinary{nt.s, y, z}}
				continue
			}
			x = &EBinary{t.s, x, y}
			continue
		}
		return x
	}
}

func (p *parser) add() Expr {
	x := p.mul()
	for p.isOp("+") || p.isOp("-") || p.isOp("++") {
		op := p.next().s
		x = &EBinary{op, x, p.mul()}
	}
	return x
}

func (p *parser) mul() Expr {
	x := p.unary()
	for p.isOp("*") || p.isOp("/") || p.isOp("%") {
		op := p.next().s
		x = &EBinary{op, x, p.unary()}
	}
	return x
}

func (p *parser) unary() Expr {
	if p.isOp("!") || p.isOp("-") {
		op := p.next().s
		return &EUnary{op, p.unary()}
	}
	return p.postfix()
}

func (p *parser) args() []Expr {
	p.expectOp("(")
	var out []Expr
	for !p.isOp(")") {
		out = append(out, p.expr())
		if p.isOp(",") {
			p.next()
		}
	}
	p.next()
	return out
}

func (p *parser) postfix() Expr {
	x := p.primary()
	for {
		switch {
		case p.isOp("."):
			p.next()
			name := p.ident()
			if p.isOp("(") {
				x = &EMethod{x, name, p.args()}
			} else {
				x = &EField{x, name}
			}
		case p.isOp("[") && !p.peek().bol:
			p.next()
			var lo, hi Expr
			if !p.isOp(":") {
				lo = p.expr()
			}
			if p.isOp(":") {
				p.next()
				if !p.isOp("]") {
					hi = p.expr()
				}
				p.expectOp("]")
				x = &ESlice{x, lo, hi}
			} else {
				p.expectOp("]")
				x = &EIndex{x, lo}
			}
		default:
			return x
		}
	}
}

func (p *parser) primary() Expr {
	t := p.next()
	switch t.k {
	case tInt:
		return &EInt{t.s}
	case tStr:
		return &EStr{t.s}
	case tOp:
		switch t.s {
		case "(":
			e := p.expr()
			p.expectOp(")")
			return e
		case "[":
			l := &EList{}
			for !p.isOp("]") {
				l.Elems = append(l.Elems, p.expr())
				if p.isOp(",") {
					p.next()
				}
			}
			p.next()
			return l
		case "$":
			return &EIdent{"$" + p.ident()}
		}
	case tIdent:
		switch t.s {
		case "true":
			return &EBool{true}
		case "false":
			return &EBool{false}
		case "nil":
			return &ENil{}
		case "old":
			a := p.args()
			return &EOld{a[0]}
		}
		if p.isOp("(") && !p.peek().bol {
			return &ECall{t.s, p.args()}
		}
		if p.isOp("{") && t.s[0] >= 'A' && t.s[0] <= 'Z' {
			p.next()
			s := &EStruct{Type: t.s}
			for !p.isOp("}") {
				s.Elems = append(s.Elems, p.expr())
				if p.isOp(",") {
					p.next()
				}
			}
			p.next()
			return s
		}
		return &EIdent{t.s}
	}
	panic(fmt.Sprintf("line %d: unexpected token %q in expression", t.line, t.s))
}
