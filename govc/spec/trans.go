package spec

import (
	"fmt"
	"strings"

	"govc/sx"
)

type TK int

const (
	KInt TK = iota
	KBool
	KBytes // raw SMT String
	KNB    // Go byte slice/string with null flag
	KStore
	KStruct
	KList
	KOpt
	KLog
	KUnit
	KAny // opaque dynamically typed VM item
	KMap // opaque map
)

type Type struct {
	K    TK
	Name string // struct name / list sort name
}

func (t Type) Sort() string {
	switch t.K {
	case KInt:
		return "Int"
	case KBool:
		return "Bool"
	case KBytes:
		return "String"
	case KNB:
		return "NB"
	case KStore:
		return "Store"
	case KOpt:
		return "Opt"
	case KStruct, KList:
		return t.Name
	case KAny:
		return "Any"
	case KMap:
		return "MapV"
	}
	return "Int"
}

// Event is one notification or external call in a ghost log.
type Event struct {
	Name  string
	Args  []*sx.T
	Sorts []string
}

// LogVal is a ghost log: a symbolic base followed by concrete events.
type LogVal struct {
	Base  string
	Items []Event
}

type TV struct {
	T   *sx.T
	Ty  Type
	Log *LogVal
}

type Field struct {
	Name string
	Ty   Type
}

// Env is the translation environment.
type Env struct {
	Vars    map[string]TV
	Funcs   map[string]func(args []TV) TV // loop specials such as $it.key
	Entry   *Env                          // state at loop entry, for entry(...)
	XLog    func(method string) *LogVal   // per-method external call log of the state
	Old     *Env
	File    *File
	Structs map[string][]Field
	Lists   map[string]Type // list sort -> element type
	uniq    *int
	Lookup  func(name string) (TV, bool) // package-level Go constants of the package under contract
}

func NewEnv(f *File, structs map[string][]Field) *Env {
	n := 0
	return &Env{Vars: map[string]TV{}, File: f, Structs: structs, uniq: &n}
}

func (e *Env) Child() *Env {
	c := &Env{Vars: map[string]TV{}, Funcs: e.Funcs, Entry: e.Entry, XLog: e.XLog, Old: e.Old, File: e.File, Structs: e.Structs, Lists: e.Lists, uniq: e.uniq, Lookup: e.Lookup}
	for k, v := range e.Vars {
		c.Vars[k] = v
	}
	return c
}

var NilNB = sx.App("mkNB", sx.Bool(true), sx.Str(""))

func MkNB(s *sx.T) *sx.T { return sx.App("mkNB", sx.Bool(false), s) }

// Bv projects an NB term to its bytes, simplifying constructor applications.
func Bv(t *sx.T) *sx.T {
	if t.Head() == "mkNB" {
		return t.L[2]
	}
	if t.Head() == "ite" {
		return sx.Ite(t.L[1], Bv(t.L[2]), Bv(t.L[3]))
	}
	return sx.App("bv", t)
}

func toBytes(v TV) *sx.T {
	switch v.Ty.K {
	case KNB:
		return Bv(v.T)
	case KBytes:
		return v.T
	}
	panic(fmt.Sprintf("expected bytes, got sort %s (%s)", v.Ty.Sort(), v.T))
}

func parseType(s string) Type {
	if strings.HasPrefix(s, "L_") {
		// make sure the list sort is registered before it is indexed (its element type is looked up by name)
		switch s {
		case "L_NB":
			NeedList(Type{K: KNB})
		case "L_Any":
			NeedList(Type{K: KAny})
		case "L_Int":
			NeedList(Type{K: KInt})
		}
		return Type{K: KList, Name: s}
	}
	switch s {
	case "Int":
		return Type{K: KInt}
	case "Bool":
		return Type{K: KBool}
	case "Bytes":
		return Type{K: KBytes}
	case "Store":
		return Type{K: KStore}
	case "OptBytes":
		return Type{K: KOpt}
	case "Any":
		return Type{K: KAny}
	}
	return Type{K: KStruct, Name: s}
}

func posConst(t *sx.T) bool {
	if !t.IsAtom() || len(t.A) == 0 || len(t.A) > 18 {
		return false
	}
	for _, c := range t.A {
		if c < '0' || c > '9' {
			return false
		}
	}
	return t.A != "0"
}

func tdiv(a, b *sx.T) *sx.T {
	if posConst(b) { // truncated division by a positive constant
		if posConst(a) || (a.IsAtom() && a.A == "0") {
			return sx.App("div", a, b)
		}
		return sx.Ite(sx.App(">=", a, sx.Int(0)), sx.App("div", a, b), sx.App("-", sx.App("div", sx.App("-", a), b)))
	}
	q := sx.App("div", sx.App("abs", a), sx.App("abs", b))
	same := sx.App("=", sx.App(">=", a, sx.Int(0)), sx.App(">", b, sx.Int(0)))
	return sx.Ite(same, q, sx.App("-", q))
}

// Tmod and Tdiv are exported for the executor (code and contracts must build identical terms).
func Tmod(a, b *sx.T) *sx.T { return tmod(a, b) }
func Tdiv(a, b *sx.T) *sx.T { return tdiv(a, b) }

// tmod is Go's remainder: sign of the dividend.
func tmod(a, b *sx.T) *sx.T {
	if posConst(b) {
		return sx.Ite(sx.App(">=", a, sx.Int(0)), sx.App("mod", a, b), sx.App("-", sx.App("mod", sx.App("-", a), b)))
	}
	m := sx.App("mod", sx.App("abs", a), sx.App("abs", b))
	return sx.Ite(sx.App(">=", a, sx.Int(0)), m, sx.App("-", m))
}

// Declare registers an SMT declaration needed by a translated term (set by the engine).
var Declare = func(key, decl string) {}

// DeclareAtoi declares the uninterpreted functions modelling std.atoi of the given base (10 or 16); their axioms
// are added by the engine's prelude whenever the functions are declared.
func DeclareAtoi(base int) {
	Declare(fmt.Sprintf("uf:std_atoi%d_ok", base), fmt.Sprintf("(declare-fun std_atoi%d_ok (String) Bool)", base))
	Declare(fmt.Sprintf("uf:std_atoi%d", base), fmt.Sprintf("(declare-fun std_atoi%d (String) Int)", base))
	Declare(fmt.Sprintf("uf:std_atoi%d_bad", base), fmt.Sprintf("(declare-fun std_atoi%d_bad (String) Int)", base))
	if base == 16 {
		Declare("uf:std_hexu", "(declare-fun std_hexu (String) Int)")
	}
}

// NeedList asks the engine to register the list sort with the given element type.
var NeedList = func(elem Type) {}

// DeclareSnapshots declares the global snapshot functions of storage.Find.
func DeclareSnapshots() {
	Declare("cnt", "(declare-fun cnt (Store String) Int)")
	Declare("skey", "(declare-fun skey (Store String Int) String)")
	Declare("sidx", "(declare-fun sidx (Store String String) Int)")
}

func committeeT() *sx.T {
	NeedList(Type{K: KNB})
	Declare("uf:native_neo_GetCommittee", "(declare-const native_neo_GetCommittee L_NB)")
	return sx.Atom("native_neo_GetCommittee")
}

// MultisigT is the term of contract.CreateMultisigAccount(m, keys).
func MultisigT(m, keys *sx.T) *sx.T {
	NeedList(Type{K: KNB})
	Declare("uf:contract_CreateMultisigAccount", "(declare-fun contract_CreateMultisigAccount (Int L_NB) NB)")
	return sx.App("contract_CreateMultisigAccount", m, keys)
}

// Tr translates a specification expression.
func (e *Env) Tr(x Expr) TV {
	switch x := x.(type) {
	case *EInt:
		return TV{T: sx.Atom(x.V), Ty: Type{K: KInt}}
	case *EStr:
		return TV{T: sx.Str(x.V), Ty: Type{K: KBytes}}
	case *EBool:
		return TV{T: sx.Bool(x.V), Ty: Type{K: KBool}}
	case *ENil:
		return TV{T: NilNB, Ty: Type{K: KNB}}
	case *EIdent:
		if v, ok := e.Vars[x.Name]; ok {
			return v
		}
		switch x.Name {
		case "height":
			Declare("uf:native_ledger_CurrentIndex", "(declare-const native_ledger_CurrentIndex Int)")
			return TV{T: sx.Atom("native_ledger_CurrentIndex"), Ty: Type{K: KInt}}
		case "now":
			Declare("uf:runtime_GetTime", "(declare-const runtime_GetTime Int)")
			return TV{T: sx.Atom("runtime_GetTime"), Ty: Type{K: KInt}}
		}
		if d, ok := e.File.Pures[x.Name]; ok && len(d.Params) == 0 {
			return e.callPure(d, nil)
		}
		for _, inv := range e.File.Invs {
			if inv.Name == x.Name {
				return e.Tr(inv.Body)
			}
		}
		for _, inv := range e.File.RefInvs {
			if inv.Name == x.Name {
				return e.Tr(inv.Body)
			}
		}
		if e.Lookup != nil {
			if v, ok := e.Lookup(x.Name); ok {
				return v
			}
		}
		panic("unknown identifier " + x.Name)
	case *EOld:
		if l := e.tryLog(x); l != nil {
			return TV{Ty: Type{K: KLog}, Log: l}
		}
		if e.Old == nil {
			panic("old() without pre-state")
		}
		o := e.Old.Child()
		// spec-bound variables stay visible inside old()
		for k, v := range e.Vars {
			if _, isOld := e.Old.Vars[k]; !isOld {
				o.Vars[k] = v
			}
		}
		o.Old = e.Old // old() inside old() is the same pre-state
		o.Funcs = e.Funcs
		return o.Tr(x.X)
	case *EUnary:
		v := e.Tr(x.X)
		if x.Op == "!" {
			return TV{T: sx.Not(v.T), Ty: Type{K: KBool}}
		}
		return TV{T: sx.App("-", v.T), Ty: Type{K: KInt}}
	case *ECond:
		c, a, b := e.Tr(x.C), e.Tr(x.A), e.Tr(x.B)
		a, b = unify(a, b)
		return TV{T: sx.Ite(c.T, a.T, b.T), Ty: a.Ty}
	case *EBinary:
		return e.binary(x)
	case *EField:
		if x.Name == "len" {
			if v := e.tryLog(x.X); v != nil {
				return TV{T: v.lenT(), Ty: Type{K: KInt}}
			}
		}
		if id, ok := x.X.(*EIdent); ok {
			// loop specials ($it.pos) and attributes of iterator-valued results (r.prefix, r.opts, r.store, r.pos)
			if v, ok := e.Vars[id.Name+"."+x.Name]; ok {
				return v
			}
			if strings.HasPrefix(id.Name, "$") {
				panic("unknown loop special " + id.Name + "." + x.Name)
			}
		}
		v := e.Tr(x.X)
		if v.Ty.K != KStruct {
			panic("field access on non-struct " + x.Name)
		}
		for _, f := range e.Structs[v.Ty.Name] {
			if f.Name == x.Name {
				t := sx.App(v.Ty.Name+"_"+x.Name, v.T)
				if v.T.Head() == "mk"+v.Ty.Name { // projection of a constructor
					for i, ff := range e.Structs[v.Ty.Name] {
						if ff.Name == x.Name {
							t = v.T.L[i+1]
						}
					}
				}
				return TV{T: t, Ty: f.Ty}
			}
		}
		panic("no field " + x.Name + " in " + v.Ty.Name)
	case *EMethod:
		if id, ok := x.X.(*EIdent); ok && strings.HasPrefix(id.Name, "$") {
			f, ok := e.Funcs[id.Name+"."+x.Name]
			if !ok {
				panic("unknown loop special " + id.Name + "." + x.Name)
			}
			args := make([]TV, len(x.Args))
			for i, a := range x.Args {
				args[i] = e.Tr(a)
			}
			return f(args)
		}
		v := e.Tr(x.X)
		if v.Ty.K == KStore {
			k := toBytes(e.Tr(x.Args[0]))
			sel := sx.App("select", v.T, k)
			switch x.Name {
			case "has":
				return TV{T: sx.Not(sx.App("(_ is None)", sel)), Ty: Type{K: KBool}}
			case "get":
				return TV{T: sx.App("val", sel), Ty: Type{K: KBytes}}
			case "opt":
				return TV{T: sel, Ty: Type{K: KOpt}}
			}
		}
		panic("unknown method " + x.Name)
	case *EIndex:
		if l := e.tryLog(x.X); l != nil {
			return TV{T: l.atT(e.Tr(x.I).T), Ty: Type{K: KStruct, Name: "GhostEv"}}
		}
		v, i := e.Tr(x.X), e.Tr(x.I)
		if v.Ty.K == KList {
			return TV{T: sx.App("select", sx.App(v.Ty.Name+"_arr", v.T), i.T), Ty: e.Lists[v.Ty.Name]}
		}
		return TV{T: sx.App("str.to_code", sx.App("str.at", toBytes(v), i.T)), Ty: Type{K: KInt}}
	case *ESlice:
		s := toBytes(e.Tr(x.X))
		lo := sx.Int(0)
		if x.Lo != nil {
			lo = e.Tr(x.Lo).T
		}
		var hi *sx.T = sx.App("str.len", s)
		if x.Hi != nil {
			hi = e.Tr(x.Hi).T
		}
		return TV{T: sx.App("str.substr", s, lo, sx.App("-", hi, lo)), Ty: Type{K: KBytes}}
	case *EStruct:
		fs, ok := e.Structs[x.Type]
		if !ok || len(fs) != len(x.Elems) {
			panic("bad struct literal " + x.Type)
		}
		args := make([]*sx.T, len(fs))
		for i, f := range fs {
			v := e.Tr(x.Elems[i])
			args[i] = coerce(v, f.Ty)
		}
		return TV{T: sx.App("mk"+x.Type, args...), Ty: Type{K: KStruct, Name: x.Type}}
	case *EList:
		l := &LogVal{}
		for _, el := range x.Elems {
			c, ok := el.(*ECall)
			if !ok {
				panic("list literal must contain events")
			}
			ev := Event{Name: c.Fn}
			for _, a := range c.Args {
				tv := e.Tr(a)
				t := tv.T
				if tv.Ty.K == KBytes {
					t, tv.Ty = MkNB(t), Type{K: KNB}
				}
				ev.Args = append(ev.Args, t)
				ev.Sorts = append(ev.Sorts, tv.Ty.Sort())
			}
			l.Items = append(l.Items, ev)
		}
		return TV{Ty: Type{K: KLog}, Log: l}
	case *ECall:
		return e.call(x)
	case *EQuant:
		c := e.Child()
		var binders []*sx.T
		for _, v := range x.Vars {
			*e.uniq++
			name := fmt.Sprintf("%s?%d", v.Name, *e.uniq)
			ty := parseType(v.Type)
			c.Vars[v.Name] = TV{T: sx.Atom(name), Ty: ty}
			binders = append(binders, sx.List(sx.Atom(name), sx.Atom(ty.Sort())))
		}
		body := c.Tr(x.Body).T
		if len(x.Triggers) > 0 {
			parts := []*sx.T{sx.Atom("!"), body}
			for _, tr := range x.Triggers {
				var ts []*sx.T
				for _, t := range tr {
					tv := c.Tr(t)
					tt := tv.T
					// a boolean/option wrapper is not a usable trigger: take the select below it
					sx.Walk(tt, func(s *sx.T) bool {
						if s.Head() == "select" {
							tt = s
							return false
						}
						return true
					})
					ts = append(ts, tt)
				}
				parts = append(parts, sx.Atom(":pattern"), sx.List(ts...))
			}
			body = sx.List(parts...)
		}
		q := "forall"
		if !x.Forall {
			q = "exists"
		}
		return TV{T: sx.List(sx.Atom(q), sx.List(binders...), body), Ty: Type{K: KBool}}
	}
	panic(fmt.Sprintf("unsupported expression %T", x))
}

// tryLog evaluates x if it denotes a ghost log.
func (e *Env) tryLog(x Expr) *LogVal {
	xm := func(env *Env, c *ECall) *LogVal {
		if c.Fn == "xcalls" && len(c.Args) == 1 && env != nil && env.XLog != nil {
			if s, ok := c.Args[0].(*EStr); ok {
				return env.XLog(s.V)
			}
		}
		return nil
	}
	switch y := x.(type) {
	case *EIdent:
		if v, ok := e.Vars[y.Name]; ok && v.Ty.K == KLog {
			return v.Log
		}
	case *EOld:
		if id, ok := y.X.(*EIdent); ok && e.Old != nil {
			if v, ok := e.Old.Vars[id.Name]; ok && v.Ty.K == KLog {
				return v.Log
			}
		}
		if c, ok := y.X.(*ECall); ok {
			return xm(e.Old, c)
		}
	case *ECall:
		if l := xm(e, y); l != nil {
			return l
		}
		if y.Fn == "entry" && e.Entry != nil {
			if c, ok := y.Args[0].(*ECall); ok {
				return xm(e.Entry, c)
			}
		}
		if y.Fn == "entry" && e.Entry != nil {
			if id, ok := y.Args[0].(*EIdent); ok {
				if v, ok := e.Entry.Vars[id.Name]; ok && v.Ty.K == KLog {
					return v.Log
				}
			}
		}
	}
	return nil
}

func coerce(v TV, to Type) *sx.T {
	if v.Ty.K == to.K {
		return v.T
	}
	if v.Ty.K == KNB && to.K == KBytes {
		return Bv(v.T)
	}
	if v.Ty.K == KBytes && to.K == KNB {
		return MkNB(v.T)
	}
	panic(fmt.Sprintf("cannot coerce %s to %s", v.Ty.Sort(), to.Sort()))
}

func unify(a, b TV) (TV, TV) {
	if a.Ty.K == KNB && b.Ty.K == KNB {
		// byte strings are compared by content, as the VM does; nil-ness is asked with isnil()
		if sx.Eq(a.T, NilNB) || sx.Eq(b.T, NilNB) {
			return a, b
		}
		return TV{T: Bv(a.T), Ty: Type{K: KBytes}}, TV{T: Bv(b.T), Ty: Type{K: KBytes}}
	}
	if a.Ty.K == b.Ty.K {
		return a, b
	}
	if a.Ty.K == KNB && b.Ty.K == KBytes {
		return TV{T: Bv(a.T), Ty: b.Ty}, b
	}
	if a.Ty.K == KBytes && b.Ty.K == KNB {
		return a, TV{T: Bv(b.T), Ty: a.Ty}
	}
	panic(fmt.Sprintf("type mismatch %s vs %s (%s / %s)", a.Ty.Sort(), b.Ty.Sort(), a.T, b.T))
}

func (e *Env) binary(x *EBinary) TV {
	l, r := e.Tr(x.X), e.Tr(x.Y)
	B := Type{K: KBool}
	I := Type{K: KInt}
	switch x.Op {
	case "&&":
		return TV{T: sx.And(l.T, r.T), Ty: B}
	case "||":
		return TV{T: sx.Or(l.T, r.T), Ty: B}
	case "==>":
		return TV{T: sx.Implies(l.T, r.T), Ty: B}
	case "<==>":
		return TV{T: sx.App("=", l.T, r.T), Ty: B}
	case "==", "!=":
		var t *sx.T
		if l.Ty.K == KLog || r.Ty.K == KLog {
			t = logEq(l.Log, r.Log)
		} else {
			l, r = unify(l, r)
			t = sx.EqT(l.T, r.T)
		}
		if x.Op == "!=" {
			t = sx.Not(t)
		}
		return TV{T: t, Ty: B}
	case "<", "<=", ">", ">=":
		return TV{T: sx.App(x.Op, l.T, r.T), Ty: B}
	case "+", "-", "*":
		return TV{T: sx.App(x.Op, l.T, r.T), Ty: I}
	case "/":
		return TV{T: tdiv(l.T, r.T), Ty: I}
	case "%":
		return TV{T: tmod(l.T, r.T), Ty: I}
	case "++":
		if l.Ty.K == KLog {
			return TV{Ty: l.Ty, Log: &LogVal{Base: l.Log.Base, Items: append(append([]Event{}, l.Log.Items...), r.Log.Items...)}}
		}
		return TV{T: sx.App("str.++", toBytes(l), toBytes(r)), Ty: Type{K: KBytes}}
	}
	panic("operator " + x.Op)
}

// EventDecls collects the uninterpreted event constructors used in terms (name -> declaration).
var EventDecls = map[string]string{}

// EventTerm is the SMT term of one event: an uninterpreted constructor per (name, argument sorts).
func EventTerm(ev Event, sorts []string) *sx.T {
	// byte strings are compared by content: event constructors take the bytes, not the nullable value
	if len(sorts) == len(ev.Args) {
		ns := make([]string, len(sorts))
		na := make([]*sx.T, len(ev.Args))
		for i := range sorts {
			ns[i], na[i] = sorts[i], ev.Args[i]
			if sorts[i] == "NB" {
				ns[i], na[i] = "String", Bv(ev.Args[i])
			}
		}
		sorts = ns
		ev = Event{Name: ev.Name, Args: na, Sorts: ns}
	}
	name := "ev_" + strings.NewReplacer(".", "_", "-", "_").Replace(ev.Name) + fmt.Sprintf("_%d", len(ev.Args))
	key := name + "/" + strings.Join(sorts, ",")
	if _, ok := EventDecls[key]; !ok {
		fn := name
		if len(EventDecls) > 0 {
			for k := range EventDecls {
				if strings.HasPrefix(k, name+"/") && k != key {
					fn = fmt.Sprintf("%s_v%d", name, len(EventDecls))
				}
			}
		}
		EventDecls[key] = fmt.Sprintf("%s|(declare-fun %s (%s) GhostEv)", fn, fn, strings.Join(sorts, " "))
	}
	fn := strings.SplitN(EventDecls[key], "|", 2)[0]
	if len(ev.Args) == 0 {
		return sx.App(fn)
	}
	return sx.App(fn, ev.Args...)
}

// SortOf guesses the sort of a ground/symbolic argument term from its shape (events carry Int, Bool, NB, lists).
var SortOf func(t *sx.T) string

func (l *LogVal) LenT() *sx.T { return l.lenT() }

func (l *LogVal) lenT() *sx.T {
	if len(l.Items) == 0 {
		return sx.Atom(l.Base)
	}
	return sx.App("+", sx.Atom(l.Base), sx.Int(int64(len(l.Items))))
}

func (l *LogVal) atT(j *sx.T) *sx.T {
	// an index that is syntactically base + k names the k-th item appended in this activation
	if k, ok := offsetOf(j, l.Base); ok && k >= 0 && k < int64(len(l.Items)) {
		return EventTerm(l.Items[k], l.Items[k].Sorts)
	}
	t := sx.App("at_"+l.Base, j)
	for k, it := range l.Items {
		sorts := it.Sorts
		t = sx.Ite(sx.App("=", j, sx.App("+", sx.Atom(l.Base), sx.Int(int64(k)))), EventTerm(it, sorts), t)
	}
	return t
}

// DeclareNilPtr declares the nil-ness predicate of pointers to struct name and the nil pointer itself.
func DeclareNilPtr(name string) {
	Declare("zzp:"+name, fmt.Sprintf("(declare-fun isnilp_%s (%s) Bool)\n(declare-const nilp_%s %s)\n(assert (isnilp_%s nilp_%s))", name, name, name, name, name, name))
}

// offsetOf recognises the terms base, (+ base k) and (+ (+ base k1) k2) with numerals k.
func offsetOf(j *sx.T, base string) (int64, bool) {
	if j.IsAtom() {
		return 0, j.A == base
	}
	if j.Head() == "+" && len(j.L) == 3 && j.L[2].IsAtom() {
		var k int64
		if _, err := fmt.Sscanf(j.L[2].A, "%d", &k); err == nil && fmt.Sprint(k) == j.L[2].A {
			if b, ok := offsetOf(j.L[1], base); ok {
				return b + k, true
			}
		}
	}
	return 0, false
}

var logEqN int

func logEq(a, b *LogVal) *sx.T {
	if a == nil || b == nil {
		return sx.Bool(false)
	}
	if a.Base != b.Base {
		// different symbolic bases: equal length and pointwise equal
		logEqN++
		j := sx.Atom(fmt.Sprintf("j?log%d", logEqN))
		body := sx.Implies(sx.And(sx.App("<=", sx.Int(0), j), sx.App("<", j, a.lenT())), sx.App("=", a.atT(j), b.atT(j)))
		q := sx.List(sx.Atom("forall"), sx.List(sx.List(j, sx.Atom("Int"))),
			sx.List(sx.Atom("!"), body, sx.Atom(":pattern"), sx.List(sx.App("at_"+a.Base, j)), sx.Atom(":pattern"), sx.List(sx.App("at_"+b.Base, j))))
		return sx.And(sx.App("=", a.lenT(), b.lenT()), q)
	}
	if len(a.Items) != len(b.Items) {
		return sx.Bool(false)
	}
	var cs []*sx.T
	for i := range a.Items {
		if a.Items[i].Name != b.Items[i].Name || len(a.Items[i].Args) != len(b.Items[i].Args) {
			return sx.Bool(false)
		}
		for j := range a.Items[i].Args {
			x, y := a.Items[i].Args[j], b.Items[i].Args[j]
			sa, sb := "", ""
			if j < len(a.Items[i].Sorts) {
				sa = a.Items[i].Sorts[j]
			}
			if j < len(b.Items[i].Sorts) {
				sb = b.Items[i].Sorts[j]
			}
			if sa != sb {
				return sx.Bool(false)
			}
			if sa == "NB" { // byte strings are compared by content
				x, y = Bv(x), Bv(y)
			}
			cs = append(cs, sx.EqT(x, y))
		}
	}
	return sx.And(cs...)
}

// normBytes compares NB values by content.
func normBytes(t *sx.T) *sx.T {
	if t.Head() == "mkNB" {
		return t.L[2]
	}
	return t
}

// opaqueApp is the application of the uninterpreted function standing for an opaque pure function.
func opaqueApp(d *PureDecl, args []*sx.T) *sx.T {
	var ps []string
	for _, p := range d.Params {
		ps = append(ps, parseType(p.Type).Sort())
	}
	Declare("uf:op_"+d.Name, fmt.Sprintf("(declare-fun op_%s (%s) %s)", d.Name, strings.Join(ps, " "), parseType(d.Result).Sort()))
	if len(args) == 0 {
		return sx.App("op_" + d.Name)
	}
	return sx.App("op_"+d.Name, args...)
}

// RevealAxiom is the defining axiom of an opaque pure function: forall params :: op_f(params) == body.
func (e *Env) RevealAxiom(d *PureDecl) *sx.T {
	c := &Env{Vars: map[string]TV{}, File: e.File, Structs: e.Structs, Lists: e.Lists, uniq: e.uniq, Lookup: e.Lookup}
	var binders []*sx.T
	var args []*sx.T
	for _, p := range d.Params {
		*e.uniq++
		name := fmt.Sprintf("%s?%d", p.Name, *e.uniq)
		ty := parseType(p.Type)
		c.Vars[p.Name] = TV{T: sx.Atom(name), Ty: ty}
		binders = append(binders, sx.List(sx.Atom(name), sx.Atom(ty.Sort())))
		args = append(args, sx.Atom(name))
	}
	body := c.Tr(d.Body)
	rt := parseType(d.Result)
	bt := body.T
	if body.Ty.K != rt.K {
		bt = coerce(body, rt)
	}
	app := opaqueApp(d, args)
	return sx.List(sx.Atom("forall"), sx.List(binders...), sx.List(sx.Atom("!"), sx.App("=", app, bt), sx.Atom(":pattern"), sx.List(app)))
}

func (e *Env) callPure(d *PureDecl, args []TV) TV {
	if d.Opaque {
		ts := make([]*sx.T, len(args))
		for i, p := range d.Params {
			ts[i] = coerce(args[i], parseType(p.Type))
		}
		return TV{T: opaqueApp(d, ts), Ty: parseType(d.Result)}
	}
	c := &Env{Vars: map[string]TV{}, Old: nil, File: e.File, Structs: e.Structs, Lists: e.Lists, uniq: e.uniq, Lookup: e.Lookup}
	for i, p := range d.Params {
		pt := parseType(p.Type)
		c.Vars[p.Name] = TV{T: coerce(args[i], pt), Ty: pt, Log: args[i].Log}
	}
	// transaction constants stay visible
	for _, k := range []string{"callingScriptHash", "height", "now"} {
		if v, ok := e.Vars[k]; ok {
			c.Vars[k] = v
		}
	}
	r := c.Tr(d.Body)
	rt := parseType(d.Result)
	if r.Ty.K != rt.K {
		r = TV{T: coerce(r, rt), Ty: rt}
	}
	return r
}

func (e *Env) call(x *ECall) TV {
	B := Type{K: KBool}
	I := Type{K: KInt}
	if x.Fn == "xcalls" {
		if l := e.tryLog(x); l != nil {
			return TV{Ty: Type{K: KLog}, Log: l}
		}
		panic("xcalls(\"method\") needs a constant method name")
	}
	if x.Fn == "cur" {
		// current value of a (reassigned) parameter inside a loop invariant
		if id, ok := x.Args[0].(*EIdent); ok {
			if v, ok := e.Vars["$cur."+id.Name]; ok {
				return v
			}
		}
		return e.Tr(x.Args[0])
	}
	if x.Fn == "entry" {
		if l := e.tryLog(x); l != nil {
			return TV{Ty: Type{K: KLog}, Log: l}
		}
		if e.Entry == nil {
			panic("entry() outside a loop invariant")
		}
		o := e.Entry.Child()
		for k, v := range e.Vars { // spec-bound variables and unchanged locals stay visible
			if _, has := o.Vars[k]; !has {
				o.Vars[k] = v
			}
		}
		return o.Tr(x.Args[0])
	}
	if d, ok := e.File.Pures[x.Fn]; ok {
		args := make([]TV, len(x.Args))
		for i, a := range x.Args {
			args[i] = e.Tr(a)
		}
		return e.callPure(d, args)
	}
	if u, ok := e.File.UFuns[x.Fn]; ok {
		args := make([]*sx.T, len(x.Args))
		for i, a := range x.Args {
			args[i] = coerce(e.Tr(a), parseType(u.Params[i].Type))
		}
		return TV{T: sx.App("uf_"+u.Name, args...), Ty: parseType(u.Result)}
	}
	if _, ok := e.File.Folds[x.Fn]; ok {
		return TV{T: sx.App("fold_"+x.Fn, e.Tr(x.Args[0]).T), Ty: I}
	}
	if strings.HasPrefix(x.Fn, "unbox_L_") { // an `any` value (result of a cross-contract call) seen as a list of the named sort
		ln := strings.TrimPrefix(x.Fn, "unbox_")
		Declare("uf:"+x.Fn, fmt.Sprintf("(declare-fun %s (Any) %s)", x.Fn, ln))
		return TV{T: sx.App(x.Fn, e.Tr(x.Args[0]).T), Ty: Type{K: KList, Name: ln}}
	}
	if strings.HasPrefix(x.Fn, "empty_L_") { // an empty, non-nil list of the named list sort
		ln := strings.TrimPrefix(x.Fn, "empty_")
		return TV{T: sx.App("mk"+ln, sx.Bool(false), sx.Int(0), sx.Atom("arr0_"+ln)), Ty: Type{K: KList, Name: ln}}
	}
	switch {
	case x.Fn == "len":
		v := e.Tr(x.Args[0])
		if v.Ty.K == KList {
			return TV{T: sx.App(v.Ty.Name+"_len", v.T), Ty: I}
		}
		if v.Ty.K == KMap {
			return TV{T: sx.App("map_len", v.T), Ty: I}
		}
		return TV{T: sx.App("str.len", toBytes(v)), Ty: I}
	case x.Fn == "push":
		// the list obtained by appending one element (what Go's append does to a non-byte slice)
		l, el := e.Tr(x.Args[0]), e.Tr(x.Args[1])
		if l.Ty.K != KList {
			panic("push on a non-list")
		}
		et := e.Lists[l.Ty.Name]
		n := sx.App(l.Ty.Name+"_len", l.T)
		return TV{T: sx.App("mk"+l.Ty.Name, sx.Bool(false), sx.App("+", n, sx.Int(1)), sx.App("store", sx.App(l.Ty.Name+"_arr", l.T), n, coerce(el, et))), Ty: l.Ty}
	case x.Fn == "list1":
		// a one-element list of byte strings
		NeedList(Type{K: KNB})
		el := e.Tr(x.Args[0])
		return TV{T: sx.App("mkL_NB", sx.Bool(false), sx.Int(1), sx.App("store", sx.Atom("arr0_L_NB"), sx.Int(0), coerce(el, Type{K: KNB}))), Ty: Type{K: KList, Name: "L_NB"}}
	case x.Fn == "samesnap":
		// the Find snapshots of two stores under one prefix coincide (count, keys in order, positions)
		DeclareSnapshots()
		a, b, p := e.Tr(x.Args[0]).T, e.Tr(x.Args[1]).T, toBytes(e.Tr(x.Args[2]))
		*e.uniq++
		j := sx.Atom(fmt.Sprintf("j?%d", *e.uniq))
		k := sx.Atom(fmt.Sprintf("k?%d", *e.uniq))
		qk := sx.List(sx.Atom("forall"), sx.List(sx.List(j, sx.Atom("Int"))), sx.List(sx.Atom("!"),
			sx.App("=", sx.App("skey", a, p, j), sx.App("skey", b, p, j)), sx.Atom(":pattern"), sx.List(sx.App("skey", a, p, j)), sx.Atom(":pattern"), sx.List(sx.App("skey", b, p, j))))
		qi := sx.List(sx.Atom("forall"), sx.List(sx.List(k, sx.Atom("String"))), sx.List(sx.Atom("!"),
			sx.App("=", sx.App("sidx", a, p, k), sx.App("sidx", b, p, k)), sx.Atom(":pattern"), sx.List(sx.App("sidx", a, p, k)), sx.Atom(":pattern"), sx.List(sx.App("sidx", b, p, k))))
		return TV{T: sx.And(sx.App("=", sx.App("cnt", a, p), sx.App("cnt", b, p)), qk, qi), Ty: B}
	case x.Fn == "skey":
		DeclareSnapshots()
		return TV{T: sx.App("skey", e.Tr(x.Args[0]).T, toBytes(e.Tr(x.Args[1])), e.Tr(x.Args[2]).T), Ty: Type{K: KBytes}}
	case x.Fn == "sidx":
		DeclareSnapshots()
		return TV{T: sx.App("sidx", e.Tr(x.Args[0]).T, toBytes(e.Tr(x.Args[1])), toBytes(e.Tr(x.Args[2]))), Ty: I}
	case x.Fn == "cnt":
		DeclareSnapshots()
		return TV{T: sx.App("cnt", e.Tr(x.Args[0]).T, toBytes(e.Tr(x.Args[1]))), Ty: I}
	case x.Fn == "lexlt":
		return TV{T: sx.App("str.<", toBytes(e.Tr(x.Args[0])), toBytes(e.Tr(x.Args[1]))), Ty: B}
	case x.Fn == "prefix":
		return TV{T: sx.App("str.prefixof", toBytes(e.Tr(x.Args[0])), toBytes(e.Tr(x.Args[1]))), Ty: B}
	case x.Fn == "W":
		return TV{T: sx.App("W", toBytes(e.Tr(x.Args[0]))), Ty: B}
	case x.Fn == "cres" || x.Fn == "cres2":
		m := x.Args[0].(*EStr).V
		fn := x.Fn + "_" + strings.NewReplacer(".", "_", "-", "_").Replace(m)
		Declare("cres:"+fn, fmt.Sprintf("(declare-fun %s (Int) Any)", fn))
		return TV{T: sx.App(fn, e.Tr(x.Args[1]).T), Ty: Type{K: KAny}}
	case x.Fn == "asint":
		Declare("uf:unbox_Int", "(declare-fun unbox_Int (Any) Int)")
		return TV{T: sx.App("unbox_Int", e.Tr(x.Args[0]).T), Ty: I}
	case x.Fn == "asbool":
		Declare("uf:unbox_Bool", "(declare-fun unbox_Bool (Any) Bool)")
		return TV{T: sx.App("unbox_Bool", e.Tr(x.Args[0]).T), Ty: B}
	case x.Fn == "asbytes":
		// the VM item behind an `any` parameter read as a (nullable) byte string, as a Go type assertion does
		Declare("uf:unbox_NB", "(declare-fun unbox_NB (Any) NB)")
		return TV{T: sx.App("unbox_NB", e.Tr(x.Args[0]).T), Ty: Type{K: KNB}}
	case x.Fn == "split":
		// std.StringSplit(s, sep)
		NeedList(Type{K: KNB})
		Declare("uf:native_std_StringSplit", "(declare-fun native_std_StringSplit (String String) L_NB)")
		return TV{T: sx.App("native_std_StringSplit", toBytes(e.Tr(x.Args[0])), toBytes(e.Tr(x.Args[1]))), Ty: Type{K: KList, Name: "L_NB"}}
	case x.Fn == "memsearch":
		// std.MemorySearch(mem, val): the same uninterpreted function the executor uses
		Declare("uf:native_std_MemorySearch", "(declare-fun native_std_MemorySearch (String String) Int)")
		return TV{T: sx.App("native_std_MemorySearch", toBytes(e.Tr(x.Args[0])), toBytes(e.Tr(x.Args[1]))), Ty: I}
	case x.Fn == "splitne":
		// std.StringSplitNonEmpty(s, sep): the same uninterpreted function the executor uses
		NeedList(Type{K: KNB})
		Declare("uf:native_std_StringSplitNonEmpty", "(declare-fun native_std_StringSplitNonEmpty (String String) L_NB)")
		return TV{T: sx.App("native_std_StringSplitNonEmpty", toBytes(e.Tr(x.Args[0])), toBytes(e.Tr(x.Args[1]))), Ty: Type{K: KList, Name: "L_NB"}}
	case x.Fn == "itoa":
		// std.Itoa(x, 10)
		Declare("uf:native_std_Itoa", "(declare-fun native_std_Itoa (Int Int) NB)")
		return TV{T: sx.App("native_std_Itoa", e.Tr(x.Args[0]).T, sx.Int(10)), Ty: Type{K: KNB}}
	case x.Fn == "splitacc":
		// length of the first k fragments of split(s, sep) joined by the separator (the prelude's std_splitacc)
		NeedList(Type{K: KNB})
		Declare("uf:native_std_StringSplit", "(declare-fun native_std_StringSplit (String String) L_NB)")
		Declare("uf:std_splitacc", "(declare-fun std_splitacc (String String Int) Int)")
		return TV{T: sx.App("std_splitacc", toBytes(e.Tr(x.Args[0])), toBytes(e.Tr(x.Args[1])), e.Tr(x.Args[2]).T), Ty: I}
	case x.Fn == "indexof":
		return TV{T: sx.App("str.indexof", toBytes(e.Tr(x.Args[0])), toBytes(e.Tr(x.Args[1])), sx.Int(0)), Ty: I}
	case x.Fn == "suffixof":
		return TV{T: sx.App("str.suffixof", toBytes(e.Tr(x.Args[0])), toBytes(e.Tr(x.Args[1]))), Ty: B}
	case x.Fn == "contains":
		return TV{T: sx.App("str.contains", toBytes(e.Tr(x.Args[0])), toBytes(e.Tr(x.Args[1]))), Ty: B}
	case x.Fn == "aslist":
		// an `any` value converted to []any (the argument list handed to _deploy)
		NeedList(Type{K: KAny})
		Declare("uf:unbox_L_Any", "(declare-fun unbox_L_Any (Any) L_Any)")
		return TV{T: sx.App("unbox_L_Any", e.Tr(x.Args[0]).T), Ty: Type{K: KList, Name: "L_Any"}}
	case x.Fn == "asbytes":
		Declare("uf:unbox_NB", "(declare-fun unbox_NB (Any) NB)")
		return TV{T: sx.App("unbox_NB", e.Tr(x.Args[0]).T), Ty: Type{K: KNB}}
	case x.Fn == "designated":
		// roles.GetDesignatedByRole(roles.NeoFSAlphabet, height + 1): the NeoFS Alphabet keys of the main chain
		NeedList(Type{K: KNB})
		Declare("uf:native_roles_GetDesignatedByRole", "(declare-fun native_roles_GetDesignatedByRole (Int Int) L_NB)")
		Declare("uf:native_ledger_CurrentIndex", "(declare-const native_ledger_CurrentIndex Int)")
		return TV{T: sx.App("native_roles_GetDesignatedByRole", sx.Int(16), sx.App("+", sx.Atom("native_ledger_CurrentIndex"), sx.Int(1))), Ty: Type{K: KList, Name: "L_NB"}}
	case x.Fn == "committee":
		return TV{T: committeeT(), Ty: Type{K: KList, Name: "L_NB"}}
	case x.Fn == "atoi10" || x.Fn == "atoi16" || x.Fn == "atoi10ok" || x.Fn == "atoi16ok" || x.Fn == "hexu":
		// value / validity of std.Atoi10(s), std.Atoi(s, 16) of the native StdLib, and the unsigned value of a hex text
		base := 10
		if strings.Contains(x.Fn, "16") || x.Fn == "hexu" {
			base = 16
		}
		DeclareAtoi(base)
		a := toBytes(e.Tr(x.Args[0]))
		switch {
		case x.Fn == "hexu":
			return TV{T: sx.App("std_hexu", a), Ty: Type{K: KInt}}
		case strings.HasSuffix(x.Fn, "ok"):
			return TV{T: sx.App(fmt.Sprintf("std_atoi%d_ok", base), a), Ty: Type{K: KBool}}
		}
		return TV{T: sx.App(fmt.Sprintf("std_atoi%d", base), a), Ty: Type{K: KInt}}
	case x.Fn == "ecdsa":
		// crypto.VerifyWithECDsa(msg, pub, sig, Secp256r1Sha256): the same uninterpreted function the engine uses
		Declare("uf:native_crypto_VerifyWithECDsa", "(declare-fun native_crypto_VerifyWithECDsa (String String String Int) Bool)")
		return TV{T: sx.App("native_crypto_VerifyWithECDsa", toBytes(e.Tr(x.Args[0])), toBytes(e.Tr(x.Args[1])), toBytes(e.Tr(x.Args[2])), sx.Int(23)), Ty: Type{K: KBool}}
	case x.Fn == "ripemd160":
		Declare("uf:native_crypto_Ripemd160", "(declare-fun native_crypto_Ripemd160 (String) NB)")
		return TV{T: sx.App("native_crypto_Ripemd160", toBytes(e.Tr(x.Args[0]))), Ty: Type{K: KNB}}
	case x.Fn == "sha256":
		Declare("uf:native_crypto_Sha256", "(declare-fun native_crypto_Sha256 (String) NB)")
		return TV{T: sx.App("native_crypto_Sha256", toBytes(e.Tr(x.Args[0]))), Ty: Type{K: KNB}}
	case x.Fn == "sha256sum":
		// crypto/sha256.Sum256 of the Go standard library (dialect go64): the same uninterpreted function the executor uses
		Declare("uf:crypto_sha256_Sum256", "(declare-fun crypto_sha256_Sum256 (String) NB)")
		return TV{T: sx.App("crypto_sha256_Sum256", toBytes(e.Tr(x.Args[0]))), Ty: Type{K: KNB}}
	case x.Fn == "stdacct":
		a := e.Tr(x.Args[0])
		Declare("uf:contract_CreateStandardAccount", "(declare-fun contract_CreateStandardAccount (String) NB)")
		return TV{T: sx.App("contract_CreateStandardAccount", toBytes(a)), Ty: Type{K: KNB}}
	case x.Fn == "txhash":
		// hash of the transaction being executed (runtime.GetScriptContainer().Hash)
		Declare("uf:runtime_GetScriptContainer", "(declare-const runtime_GetScriptContainer Transaction)")
		return TV{T: sx.App("Transaction_Hash", sx.Atom("runtime_GetScriptContainer")), Ty: Type{K: KNB}}
	case x.Fn == "self":
		Declare("uf:runtime_GetExecutingScriptHash", "(declare-const runtime_GetExecutingScriptHash NB)")
		return TV{T: sx.Atom("runtime_GetExecutingScriptHash"), Ty: Type{K: KNB}}
	case x.Fn == "MS":
		m, keys := e.Tr(x.Args[0]), e.Tr(x.Args[1])
		return TV{T: MultisigT(m.T, keys.T), Ty: Type{K: KNB}}
	case x.Fn == "alphabet":
		// the 2/3+1 multi-signature account of the chain committee (what common.AlphabetAddress computes)
		c := committeeT()
		n := sx.App("L_NB_len", c)
		return TV{T: Bv(MultisigT(sx.App("+", tdiv(sx.App("*", n, sx.Int(2)), sx.Int(3)), sx.Int(1)), c)), Ty: Type{K: KBytes}}
	case x.Fn == "cmtaddr":
		// the majority multi-signature account of the chain committee (common.CommitteeAddress)
		c := committeeT()
		n := sx.App("L_NB_len", c)
		return TV{T: Bv(MultisigT(sx.App("+", tdiv(n, sx.Int(2)), sx.Int(1)), c)), Ty: Type{K: KBytes}}
	case x.Fn == "b2i":
		return TV{T: sx.App("b2i", toBytes(e.Tr(x.Args[0]))), Ty: I}
	case x.Fn == "i2b":
		return TV{T: sx.App("i2b", e.Tr(x.Args[0]).T), Ty: Type{K: KBytes}}
	case x.Fn == "byte":
		return TV{T: sx.App("str.from_code", e.Tr(x.Args[0]).T), Ty: Type{K: KBytes}}
	case x.Fn == "isnil":
		v := e.Tr(x.Args[0])
		switch v.Ty.K {
		case KList:
			return TV{T: sx.App(v.Ty.Name+"_null", v.T), Ty: B}
		case KAny:
			return TV{T: sx.App("=", v.T, sx.Atom("AnyNull")), Ty: B}
		case KBytes:
			return TV{T: sx.Bool(false), Ty: B}
		case KStruct:
			// dialect go64: a pointer is identified with its pointee; whether it is nil is a predicate on the value
			DeclareNilPtr(v.Ty.Name)
			return TV{T: sx.App("isnilp_"+v.Ty.Name, v.T), Ty: B}
		}
		return TV{T: sx.App("isnull", v.T), Ty: B}
	case x.Fn == "min" || x.Fn == "max":
		a, b := e.Tr(x.Args[0]).T, e.Tr(x.Args[1]).T
		op := "<="
		if x.Fn == "max" {
			op = ">="
		}
		return TV{T: sx.Ite(sx.App(op, a, b), a, b), Ty: I}
	case strings.HasPrefix(x.Fn, "deser_"):
		name := strings.TrimPrefix(x.Fn, "deser_")
		if strings.HasPrefix(name, "L_") {
			return TV{T: sx.App(x.Fn, toBytes(e.Tr(x.Args[0]))), Ty: Type{K: KList, Name: name}}
		}
		return TV{T: sx.App(x.Fn, toBytes(e.Tr(x.Args[0]))), Ty: Type{K: KStruct, Name: name}}
	case strings.HasPrefix(x.Fn, "ser_"):
		return TV{T: sx.App(x.Fn, e.Tr(x.Args[0]).T), Ty: Type{K: KBytes}}
	}
	if strings.HasPrefix(x.Fn, "ev_") { // ev_<event name>(args): an event term for log indexing
		ev := Event{Name: strings.TrimPrefix(x.Fn, "ev_")}
		var sorts []string
		for _, a := range x.Args {
			tv := e.Tr(a)
			t := tv.T
			if tv.Ty.K == KBytes { // events carry Go values: bytes are NB
				t = MkNB(t)
				tv.Ty = Type{K: KNB}
			}
			ev.Args = append(ev.Args, t)
			sorts = append(sorts, tv.Ty.Sort())
		}
		ev.Sorts = sorts
		return TV{T: EventTerm(ev, sorts), Ty: Type{K: KStruct, Name: "GhostEv"}}
	}
	panic("unknown function " + x.Fn)
}
