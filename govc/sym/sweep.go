package sym

import (
	"fmt"
	"go/types"

	"govc/smt"
	"govc/spec"
	"govc/sx"
)

// SweepMethod runs the authorisation sweep on one exported method against one line of the
// witness table: on every normal exit that changed state (storage write, notification, call with
// write/notify rights, mutating native call) the required witness formula must hold; a method
// declared `safe` must have no feasible state-changing exit. With w == nil the first-level check
// is made: some witness check was passed on every state-changing exit.
func (e *Engine) SweepMethod(pkgPath string, fn *types.Func, w *spec.WitnessReq, sp *spec.File) (rep *FuncReport, err error) {
	defer func() {
		if r := recover(); r != nil {
			err = fmt.Errorf("%s: %v", fn.Name(), r)
		}
	}()
	e.bind()
	pkg := e.Pkgs[pkgPath]
	decl := e.funcs[fn]
	e.consts = nil
	e.fresh = 0
	if sp == nil {
		sp = &spec.File{Pures: map[string]*spec.PureDecl{}, Folds: map[string]*spec.FoldDecl{}, Funcs: map[string]*spec.FuncSpec{}, UFuns: map[string]*spec.UFun{}}
	}
	// the sweep inlines everything: function contracts of the module are not used
	sweepSp := &spec.File{Pures: sp.Pures, Folds: map[string]*spec.FoldDecl{}, Funcs: map[string]*spec.FuncSpec{}, UFuns: sp.UFuns, Axioms: sp.Axioms}
	v := &verifier{e: e, sp: sweepSp, obls: map[string]*Obligation{}}
	names, objs := paramNames(decl, pkg.TypesInfo)
	st := &State{vars: map[types.Object]Val{}, store: sx.Atom("store0"), notifs: spec.LogVal{Base: "notifs0"}, xcalls: spec.LogVal{Base: "xcalls0"}}
	args := make([]Val, len(objs))
	for i, o := range objs {
		ty := e.typeOf(o.Type())
		if ty.K == spec.KUnit {
			args[i] = unit()
			st.vars[o] = args[i]
			continue
		}
		c := sx.Atom("p_" + names[i])
		e.consts = append(e.consts, smt.Var{Name: c.A, Sort: ty.Sort()})
		args[i] = Val{TV: spec.TV{T: c, Ty: ty}}
		st.vars[o] = args[i]
		v.values = append(v.values, c)
	}
	v.names, v.args = names, args
	v.pre = v.envAt(st, names, args)
	base := pkg.Types.Name() + "." + fn.Name()
	goalName := base + "#witness"
	text := "state change ==> some witness check passed (method not in the authorisation table)"
	var tags []string
	if w != nil {
		tags = w.Tags
		if w.Safe {
			goalName = base + "#safe"
			text = "safe: no state change on any normal exit"
		} else {
			text = "state change ==> " + w.Text
		}
	} else {
		goalName = base + "#witness.unlisted"
	}
	var faults []Exit
	fr := &frame{fn: fn, pkg: pkg, info: pkg.TypesInfo, exits: &faults, ver: v}
	nexits, ndirty := 0, 0
	record := func(st *State) {
		nexits++
		if !st.dirty {
			return
		}
		ndirty++
		if w != nil && w.Safe {
			v.add(goalName, tags, text, v.query(st, nil, sx.Bool(false)))
			return
		}
		var ws []*sx.T
		seen := map[string]bool{}
		collect := func(ts []*sx.T) {
			for _, t := range ts {
				sx.Walk(t, func(s *sx.T) bool {
					if s.Head() == "W" && !seen[s.String()] {
						seen[s.String()] = true
						ws = append(ws, s)
					}
					return true
				})
			}
		}
		collect(st.pc)
		collect(st.facts)
		collect(st.defs)
		anyW := sx.Or(ws...)
		goal := anyW
		if w != nil {
			env := v.envAt(st, names, args)
			env.Old = v.pre
			// the requirement is read in the pre-state of the invocation
			env.Vars["store"] = spec.TV{T: sx.Atom("store0"), Ty: spec.Type{K: spec.KStore}}
			env.Vars["anyWitness"] = spec.TV{T: anyW, Ty: spec.Type{K: spec.KBool}}
			goal = env.Tr(w.Req).T
		}
		v.add(goalName, tags, text, v.query(st, nil, goal))
	}
	fr.onRet = func(st *State, rets []Val) { record(st) }
	e.stmts(fr, st, decl.Body.List, func(st *State) { record(st) })
	if ndirty == 0 {
		v.add(goalName, tags, text, v.query(st, nil, sx.Bool(true)))
	}
	v.finish()
	rep = &FuncReport{Func: base, Exits: nexits, FaultExits: len(faults), Exported: true, Clauses: 1}
	rep.File, rep.Line, rep.SrcHash = e.srcInfo(pkg, decl)
	for _, n := range v.order {
		rep.Obligations = append(rep.Obligations, v.obls[n])
	}
	return rep, nil
}

// AxiomsConsistent produces the vacuity guard of a module: its axioms must not prove false.
func (e *Engine) AxiomsConsistent(pkgPath string) *FuncReport {
	e.bind()
	sp := e.Specs[pkgPath]
	e.consts = nil
	e.fresh = 0
	v := &verifier{e: e, sp: sp, obls: map[string]*Obligation{}}
	st := &State{vars: map[types.Object]Val{}, store: sx.Atom("store0")}
	v.add("#axioms-consistent", nil, "the axioms of the module do not prove false", v.query(st, nil, sx.Bool(false)))
	v.finish()
	rep := &FuncReport{Func: "axioms of " + pkgPath}
	for _, n := range v.order {
		rep.Obligations = append(rep.Obligations, v.obls[n])
	}
	return rep
}

// InvMethod checks that an exported method that has no contract in a module preserves the module's package
// invariants: everything is inlined, loops are cut by their syntactic frame (sweep mode), the invariants are
// assumed on entry and asserted on every normal exit. Methods that do not write the keys an invariant reads pass
// at once; others need a contract in the module.
func (e *Engine) InvMethod(pkgPath string, fn *types.Func, sp *spec.File) (rep *FuncReport, err error) {
	defer func() {
		if r := recover(); r != nil {
			err = fmt.Errorf("%s: %v", fn.Name(), r)
		}
	}()
	e.bind()
	e.RegisterStructs(pkgPath)
	pkg := e.Pkgs[pkgPath]
	decl := e.funcs[fn]
	e.consts = nil
	e.fresh = 0
	isp := &spec.File{Pures: sp.Pures, Folds: sp.Folds, Funcs: map[string]*spec.FuncSpec{}, UFuns: sp.UFuns, Axioms: sp.Axioms, Invs: sp.Invs}
	v := &verifier{e: e, sp: isp, obls: map[string]*Obligation{}, pkg: pkg}
	names, objs := paramNames(decl, pkg.TypesInfo)
	st := &State{vars: map[types.Object]Val{}, store: sx.Atom("store0"), notifs: spec.LogVal{Base: "notifs0"}, xcalls: spec.LogVal{Base: "xcalls0"}}
	args := make([]Val, len(objs))
	for i, o := range objs {
		ty := e.typeOf(o.Type())
		if ty.K == spec.KUnit {
			args[i] = unit()
			st.vars[o] = args[i]
			continue
		}
		c := sx.Atom("p_" + names[i])
		e.consts = append(e.consts, smt.Var{Name: c.A, Sort: ty.Sort()})
		args[i] = Val{TV: spec.TV{T: c, Ty: ty}}
		st.vars[o] = args[i]
		if ty.K == spec.KNB {
			v.reqs = append(v.reqs, sx.Implies(sx.App("isnull", c), sx.App("=", sx.App("bv", c), sx.Str(""))))
		}
	}
	v.names, v.args = names, args
	v.pre = v.envAt(st, names, args)
	for _, inv := range sp.Invs {
		v.reqs = append(v.reqs, v.pre.Tr(inv.Body).T)
	}
	base := pkg.Types.Name() + "." + fn.Name()
	var faults []Exit
	fr := &frame{fn: fn, pkg: pkg, info: pkg.TypesInfo, exits: &faults, ver: v}
	nexits := 0
	record := func(st *State) {
		nexits++
		env := v.envAt(st, names, args)
		env.Old = v.pre
		for _, inv := range sp.Invs {
			for _, g := range smt.SplitGoal(env.Tr(inv.Body).T) {
				v.add(fmt.Sprintf("%s#inv.%s", base, inv.Name), inv.Tags, inv.Name+" (method without contract in this module: everything inlined, loops cut by frame)", v.query(st, nil, g))
			}
		}
	}
	fr.onRet = func(st *State, rets []Val) { record(st) }
	// callees under contract (in this module or a used one) are replaced by their contracts
	v.modular = true
	if fs := e.specOf(fn); fs != nil && fs.InputOnly {
		// stated input assumptions of this method (bounds granted by the property text); the body is executed
		for _, c := range fs.Clauses {
			if c.Kind == "requires" {
				v.reqs = append(v.reqs, v.pre.Tr(c.E).T)
			}
		}
		e.stmts(fr, st, decl.Body.List, func(st *State) { record(st) })
	} else if fs := e.specOf(fn); fs != nil && !returnsIterator(fn) {
		// the method is under contract in a used module (where the contract is verified): the invariants are checked
		// against that contract - its preconditions are input assumptions here, its postconditions describe the exit
		for _, c := range fs.Clauses {
			if c.Kind == "requires" {
				v.reqs = append(v.reqs, v.pre.Tr(c.E).T)
			}
		}
		e.applyContract(fr, st, fn, decl, fs, args, func(st *State, rets []Val) { record(st) })
	} else {
		e.stmts(fr, st, decl.Body.List, func(st *State) { record(st) })
	}
	if nexits == 0 {
		for _, inv := range sp.Invs {
			v.add(fmt.Sprintf("%s#inv.%s", base, inv.Name), inv.Tags, inv.Name, v.query(st, nil, sx.Bool(true)))
		}
	}
	v.finish()
	rep = &FuncReport{Func: base, Exits: nexits, FaultExits: len(faults), Exported: true}
	rep.File, rep.Line, rep.SrcHash = e.srcInfo(pkg, decl)
	for _, n := range v.order {
		rep.Obligations = append(rep.Obligations, v.obls[n])
	}
	return rep, nil
}
