package sym

// Rebinding of renamed parameters and locals. Contracts name Go parameters and locals (loop invariants). A pure
// renaming in the code must not become an alarm: the committed baseline records, per function under contract, its
// parameters and locals in declaration order with their types; if the current tree has no variable of a recorded
// name, but the variable at the same declaration ordinal has the same type and a name the baseline does not know,
// the recorded name is bound to it.

import (
	"fmt"
	"go/ast"
	"go/types"
	"os"
	"sort"
)

// LocalInfo describes one parameter or local of a function, in declaration order.
type LocalInfo struct {
	Name string `json:"name"`
	Type string `json:"type"`
}

// BaselineLocals is the committed record: "<package name>.<function key>" -> variables in declaration order.
var BaselineLocals = map[string][]LocalInfo{}

var renameNoted = map[string]bool{}

func localsOfDecl(decl *ast.FuncDecl, info *types.Info) (out []LocalInfo, objs []types.Object) {
	type item struct {
		o   types.Object
		pos int
	}
	var items []item
	seen := map[types.Object]bool{}
	ast.Inspect(decl, func(n ast.Node) bool {
		id, ok := n.(*ast.Ident)
		if !ok || id.Name == "_" {
			return true
		}
		if o, ok := info.Defs[id].(*types.Var); ok && !o.IsField() && !seen[o] {
			seen[o] = true
			items = append(items, item{o, int(id.Pos())})
		}
		return true
	})
	sort.Slice(items, func(i, j int) bool { return items[i].pos < items[j].pos })
	for _, it := range items {
		out = append(out, LocalInfo{Name: it.o.Name(), Type: it.o.Type().String()})
		objs = append(objs, it.o)
	}
	return
}

// LocalsOf lists the parameters and locals of a function under contract (for the baseline).
func (e *Engine) LocalsOf(pkgPath, key string) []LocalInfo {
	pkg := e.Pkgs[pkgPath]
	for f, d := range e.funcs {
		if e.fpkg[f] == pkg && specKey(f) == key {
			l, _ := localsOfDecl(d, pkg.TypesInfo)
			return l
		}
	}
	return nil
}

// renamesFor returns recorded name -> current variable for the renamed variables of fn.
func (e *Engine) renamesFor(fn *types.Func) map[string]types.Object {
	if fn == nil || e.fpkg[fn] == nil {
		return nil
	}
	name := e.fpkg[fn].Types.Name() + "." + specKey(fn)
	base := BaselineLocals[name]
	if len(base) == 0 {
		return nil
	}
	cur, objs := localsOfDecl(e.funcs[fn], e.fpkg[fn].TypesInfo)
	known := map[string]bool{}
	for _, b := range base {
		known[b.Name] = true
	}
	have := map[string]bool{}
	for _, c := range cur {
		have[c.Name] = true
	}
	var out map[string]types.Object
	for i, b := range base {
		if have[b.Name] || i >= len(cur) {
			continue
		}
		if cur[i].Type == b.Type && !known[cur[i].Name] {
			if out == nil {
				out = map[string]types.Object{}
			}
			out[b.Name] = objs[i]
			if k := name + ":" + b.Name; !renameNoted[k] {
				renameNoted[k] = true
				fmt.Fprintf(os.Stderr, "note: %s: variable %s of the contract is bound to %s (renamed in the code; same declaration ordinal and type)\n", name, b.Name, cur[i].Name)
			}
		}
	}
	return out
}
