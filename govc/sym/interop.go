package sym

import (
	"fmt"
	"go/ast"
	"go/constant"
	"go/types"
	"strings"

	"govc/spec"
	"govc/sx"
)

func sanitize(s string) string {
	r := strings.NewReplacer("github.com/nspcc-dev/neo-go/pkg/interop/", "", "github.com/nspcc-dev/neofs-contract/", "", "/", "_", ".", "_", "(", "", ")", "", "*", "")
	return r.Replace(s)
}

// uf applies an uninterpreted function named after a Go function, declaring it on first use.
func (e *Engine) uf(name string, res spec.Type, args ...Val) Val {
	var sorts []string
	var ts []*sx.T
	for _, a := range args {
		if a.T == nil {
			continue
		}
		if a.Ty.K == spec.KNB && !strings.HasPrefix(name, "box_") && !strings.HasPrefix(name, "cast_") {
			// pure functions of byte strings depend on the content only (nil and empty are the same input)
			sorts = append(sorts, "String")
			ts = append(ts, a.bytes())
			continue
		}
		sorts = append(sorts, a.Ty.Sort())
		ts = append(ts, a.T)
	}
	key := name + "/" + strings.Join(sorts, ",")
	fn := name
	if prev, ok := e.ufSig[name]; ok && prev != key {
		fn = fmt.Sprintf("%s_%d", name, len(e.ufSig))
	}
	e.ufSig[name] = key
	e.extraFn["uf:"+fn] = fmt.Sprintf("(declare-fun %s (%s) %s)", fn, strings.Join(sorts, " "), res.Sort())
	if len(ts) == 0 {
		e.extraFn["uf:"+fn] = fmt.Sprintf("(declare-const %s %s)", fn, res.Sort())
		return Val{TV: spec.TV{T: sx.Atom(fn), Ty: res}}
	}
	return Val{TV: spec.TV{T: sx.App(fn, ts...), Ty: res}}
}

func (e *Engine) freshOf(ty spec.Type, prefix string) Val {
	if ty.K == spec.KUnit {
		return unit()
	}
	return Val{TV: spec.TV{T: e.sym(prefix, ty.Sort()), Ty: ty}}
}

// readOnlyFlags: contract.ReadStates=1, WriteStates=2, AllowCall=4, AllowNotify=8.
func flagsWrite(f int64) bool { return f&(2|8) != 0 }

// interop models the neo-go interop layer. It returns false if the function is not an interop.
func (e *Engine) interop(fr *frame, st *State, c *ast.CallExpr, fn *types.Func, k func(st *State, rets []Val)) bool {
	full := fn.FullName()
	if !strings.Contains(full, "neo-go/pkg/interop") {
		return false
	}
	info := fr.info
	short := sanitize(full)
	resTy := spec.Type{K: spec.KUnit}
	if sig := fn.Type().(*types.Signature); sig.Results().Len() == 1 {
		resTy = e.typeOf(sig.Results().At(0).Type())
	}
	withArgs := func(f func(st *State, vs []Val)) {
		var exprs []ast.Expr
		if sel, ok := c.Fun.(*ast.SelectorExpr); ok {
			if _, isMethod := info.Selections[sel]; isMethod {
				exprs = append(exprs, sel.X)
			}
		}
		exprs = append(exprs, c.Args...)
		e.evalList(fr, st, exprs, f)
	}
	effect := func(name string, write bool) {
		withArgs(func(st *State, vs []Val) {
			ev := spec.Event{Name: name}
			for _, v := range vs {
				if v.T != nil {
					ev.Args = append(ev.Args, v.T)
					ev.Sorts = append(ev.Sorts, v.Ty.Sort())
				}
			}
			st.xcalls.Items = append(st.xcalls.Items, ev)
			e.xappend(st, name, ev)
			if write {
				st.dirty = true
			}
			if resTy.K == spec.KUnit {
				k(st, nil)
			} else {
				k(st, []Val{e.freshOf(resTy, "x")})
			}
		})
	}
	pure := func() {
		withArgs(func(st *State, vs []Val) {
			if resTy.K == spec.KUnit {
				k(st, nil)
				return
			}
			k(st, []Val{e.uf(short, resTy, vs...)})
		})
	}
	txconst := func() { k(st, []Val{e.uf(short, resTy)}) }
	switch {
	case strings.Contains(full, "interop/neogointernal.Opcode1NoReturn"):
		op := ""
		if tv := info.Types[c.Args[0]]; tv.Value != nil {
			op = constant.StringVal(tv.Value)
		}
		id, isIdent := c.Args[1].(*ast.Ident)
		if op != "REVERSEITEMS" || !isIdent {
			panic("no model for neogointernal.Opcode1NoReturn(" + op + ")")
		}
		// in-place reversal of a byte buffer whose length is a known constant
		obj := info.Uses[id]
		cur := st.vars[obj]
		if cur.Ty.K != spec.KNB || cur.KnownLen == 0 {
			panic("REVERSEITEMS on a buffer of unknown length")
		}
		if len(cur.Cells) == cur.KnownLen-1 {
			r := Val{KnownLen: cur.KnownLen}
			for i := len(cur.Cells) - 1; i >= 0; i-- {
				r.Cells = append(r.Cells, cur.Cells[i])
			}
			r.TV = nbv(cat(r.Cells...)).TV
			st.vars[obj] = r
			k(st, nil)
			return true
		}
		n := cur.KnownLen - 1
		var parts []*sx.T
		for i := n - 1; i >= 0; i-- {
			parts = append(parts, sx.App("str.at", cur.bytes(), sx.Int(int64(i))))
		}
		r := e.name(st, nbv(cat(parts...)))
		r.KnownLen = cur.KnownLen
		st.vars[obj] = r
		k(st, nil)
	// ---- effects --------------------------------------------------------------
	case has(full, "interop/contract.Call"):
		withArgs(func(st *State, vs []Val) {
			write := true
			if tv := info.Types[c.Args[2]]; tv.Value != nil {
				f, _ := constant.Int64Val(tv.Value)
				write = flagsWrite(f)
			}
			name := "call"
			if tv := info.Types[c.Args[1]]; tv.Value != nil {
				name = "call_" + constant.StringVal(tv.Value)
			}
			ev := spec.Event{Name: name}
			for i, v := range vs {
				if i != 2 && v.T != nil {
					ev.Args = append(ev.Args, v.T)
					ev.Sorts = append(ev.Sorts, v.Ty.Sort())
				}
			}
			st.xcalls.Items = append(st.xcalls.Items, ev)
			m := strings.TrimPrefix(name, "call_")
			pos := e.xlog(st, m)
			e.xappend(st, m, ev)
			if write {
				st.dirty = true
			}
			// the result of the i-th call of a method is a function of i: contracts can name it as cres("m", i)
			fnName := "cres_" + strings.NewReplacer(".", "_", "-", "_").Replace(m)
			e.extraFn["cres:"+fnName] = fmt.Sprintf("(declare-fun %s (Int) Any)", fnName)
			k(st, []Val{{TV: spec.TV{T: sx.App(fnName, (&pos).LenT()), Ty: spec.Type{K: spec.KAny}}}})
		})
	case has(full, "native/gas.Transfer"), has(full, "native/neo.Transfer"), has(full, "native/neo.Vote"),
		has(full, "native/neo.RegisterCandidate"), has(full, "native/neo.UnregisterCandidate"),
		strings.Contains(full, "native/management.Update"), strings.Contains(full, "native/management.Deploy"),
		strings.Contains(full, "native/management.Destroy"), strings.Contains(full, "native/notary."), strings.Contains(full, "native/roles.Designate"):
		effect(short, true)
	case has(full, "interop/runtime.BurnGas"):
		effect(short, true)
	case has(full, "interop/util.Abort"):
		e.fault(fr, st, "abort")
	// ---- transaction constants ---------------------------------------------------
	case has(full, "interop/runtime.GetTime"), has(full, "interop/runtime.GetNetwork"), has(full, "interop/runtime.GetExecutingScriptHash"),
		has(full, "interop/runtime.GetEntryScriptHash"), has(full, "interop/runtime.GetScriptContainer"), has(full, "native/ledger.CurrentIndex"),
		has(full, "native/neo.GetCommittee"), has(full, "interop/runtime.GetTrigger"), has(full, "native/ledger.CurrentHash"):
		if has(full, "native/neo.GetCommittee") {
			// the committee of a Neo network is never empty (native contract, A7)
			v := e.uf(short, resTy)
			st.facts = append(st.facts, sx.App(">=", lenOf(v), sx.Int(1)))
		}
		txconst()
	case has(full, "native/gas.BalanceOf"), has(full, "native/neo.BalanceOf"):
		// balances change with the transfers made so far: the i-th read of a balance is an unknown value that
		// contracts can name as asint(cres("native_gas_BalanceOf", i)); reads are logged per method, not dirty
		withArgs(func(st *State, vs []Val) {
			ev := spec.Event{Name: short}
			for _, v := range vs {
				if v.T != nil {
					ev.Args = append(ev.Args, v.T)
					ev.Sorts = append(ev.Sorts, v.Ty.Sort())
				}
			}
			pos := e.xlog(st, short)
			e.xappend(st, short, ev)
			fnName := "cres_" + short
			e.extraFn["cres:"+fnName] = fmt.Sprintf("(declare-fun %s (Int) Any)", fnName)
			any := Val{TV: spec.TV{T: sx.App(fnName, (&pos).LenT()), Ty: spec.Type{K: spec.KAny}}}
			k(st, []Val{e.convert(any, resTy)})
		})
	// ---- pure functions ---------------------------------------------------------
	case has(full, "interop/convert.ToBytes"):
		withArgs(func(st *State, vs []Val) { k(st, []Val{e.convert(vs[0], spec.Type{K: spec.KNB})}) })
	case has(full, "interop/convert.ToInteger"):
		withArgs(func(st *State, vs []Val) { k(st, []Val{e.convert(vs[0], spec.Type{K: spec.KInt})}) })
	case has(full, "native/std.Atoi10"), has(full, "native/std.Atoi"):
		// std.atoi of the native StdLib (neo-go core/native/std.go): faults unless the text is a number of the base
		// (base 10: optional sign and decimal digits; base 16: hex digits, two's complement reading), at most 1024 bytes.
		// Validity and value are the uninterpreted std_atoiNN_ok / std_atoiNN with the Prelude axioms below.
		base := 10
		if has(full, "native/std.Atoi") && !has(full, "native/std.Atoi10") {
			base = 0
			if tv := info.Types[c.Args[1]]; tv.Value != nil {
				if b, ok := constant.Int64Val(tv.Value); ok && (b == 10 || b == 16) {
					base = int(b)
				}
			}
			if base == 0 {
				pure()
				return true
			}
		}
		withArgs(func(st *State, vs []Val) {
			spec.DeclareAtoi(base)
			okT := sx.App(fmt.Sprintf("std_atoi%d_ok", base), vs[0].bytes())
			e.guard(fr, st, okT, "std.atoi: invalid format", func(st *State) {
				k(st, []Val{mk(sx.App(fmt.Sprintf("std_atoi%d", base), vs[0].bytes()), spec.KInt)})
			})
		})
	case strings.Contains(full, "native/crypto."), strings.Contains(full, "native/std."), strings.Contains(full, "lib/address."),
		has(full, "interop/contract.CreateMultisigAccount"), has(full, "interop/contract.CreateStandardAccount"),
		strings.Contains(full, "native/roles.GetDesignatedByRole"), strings.Contains(full, "native/management.Get"),
		strings.Contains(full, "native/management.HasMethod"), strings.Contains(full, "native/ledger.Get"),
		strings.Contains(full, "native/neo.Get"), strings.Contains(full, "native/policy."), has(full, "interop/runtime.GetInvocationCounter"),
		has(full, "interop/runtime.GasLeft"), strings.Contains(full, "interop/neogointernal.Opcode"),
		strings.Contains(full, "interop/util.FromAddress"):
		pure()
	case has(full, "interop/util.Equals"):
		withArgs(func(st *State, vs []Val) {
			if vs[0].Ty.K == spec.KNB && vs[1].Ty.K == spec.KNB {
				k(st, []Val{mk(sx.EqT(vs[0].bytes(), vs[1].bytes()), spec.KBool)})
				return
			}
			k(st, []Val{e.uf(short, resTy, vs...)})
		})
	case has(full, "interop/util.Remove"):
		// in-place removal of element i from a slice variable: the tail shifts down by one
		withArgs(func(st *State, vs []Val) {
			id, ok := c.Args[0].(*ast.Ident)
			if !ok || vs[0].Ty.K != spec.KList {
				panic("util.Remove on a non-variable")
			}
			l, i := vs[0], vs[1]
			e.guard(fr, st, sx.And(sx.App("<=", sx.Int(0), i.T), sx.App("<", i.T, lenOf(l))), "util.Remove: index out of range", func(st *State) {
				r := e.freshOf(l.Ty, "rm")
				j := sx.Atom("j?rm")
				sel := func(v Val, at *sx.T) *sx.T { return sx.App("select", arrOf(v), at) }
				q := func(body *sx.T) *sx.T {
					return sx.List(sx.Atom("forall"), sx.List(sx.List(j, sx.Atom("Int"))), sx.List(sx.Atom("!"), body, sx.Atom(":pattern"), sx.List(sel(r, j))))
				}
				st.facts = append(st.facts,
					sx.App("=", lenOf(r), sx.App("-", lenOf(l), sx.Int(1))),
					sx.Not(sx.App(l.Ty.Name+"_null", r.T)),
					q(sx.Implies(sx.And(sx.App("<=", sx.Int(0), j), sx.App("<", j, i.T)), sx.App("=", sel(r, j), sel(l, j)))),
					q(sx.Implies(sx.And(sx.App("<=", i.T, j), sx.App("<", j, lenOf(r))), sx.App("=", sel(r, j), sel(l, sx.App("+", j, sx.Int(1)))))))
				st.vars[info.Uses[id]] = r
				k(st, nil)
			})
		})
	default:
		if e.Sweep {
			e.unmodelled[short]++
			pure()
			return true
		}
		panic("no model for interop " + full)
	}
	return true
}
