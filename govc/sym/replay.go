package sym

import (
	"crypto/sha256"
	"encoding/hex"
	"fmt"
	"go/types"
	"math/big"
	"sort"
	"strings"

	"govc/smt"
	"govc/spec"
	"govc/sx"
)

// Values observed on the real VM by a replay run.
type RawCell struct{ Key, Raw string }
type RawEvent struct {
	Name string
	Args []string // "i:<int>", "b:<hex>", "null", "[...]"
}
type RawWitness struct {
	Bytes string
	Holds bool
}
type SkolemValue struct{ Var, Sort, Value string }

// ---- NeoVM stack item (binary serialisation) -------------------------------------------------------------------

type vmItem struct {
	kind  byte // 0x00 null, 0x20 bool, 0x21 int, 0x28 bytes, 0x30 buffer, 0x40 array, 0x41 struct, 0x48 map
	bytes []byte
	items []*vmItem
}

func readVarUint(b []byte) (uint64, []byte, bool) {
	if len(b) == 0 {
		return 0, nil, false
	}
	switch b[0] {
	case 0xfd:
		if len(b) < 3 {
			return 0, nil, false
		}
		return uint64(b[1]) | uint64(b[2])<<8, b[3:], true
	case 0xfe:
		if len(b) < 5 {
			return 0, nil, false
		}
		return uint64(b[1]) | uint64(b[2])<<8 | uint64(b[3])<<16 | uint64(b[4])<<24, b[5:], true
	case 0xff:
		return 0, nil, false
	}
	return uint64(b[0]), b[1:], true
}

func decodeVMItem(b []byte, depth int) (*vmItem, []byte, bool) {
	if len(b) == 0 || depth > 8 {
		return nil, nil, false
	}
	k := b[0]
	b = b[1:]
	switch k {
	case 0x00:
		return &vmItem{kind: k}, b, true
	case 0x20:
		if len(b) < 1 {
			return nil, nil, false
		}
		return &vmItem{kind: k, bytes: b[:1]}, b[1:], true
	case 0x21, 0x28, 0x30:
		n, rest, ok := readVarUint(b)
		if !ok || uint64(len(rest)) < n {
			return nil, nil, false
		}
		return &vmItem{kind: k, bytes: rest[:n]}, rest[n:], true
	case 0x40, 0x41:
		n, rest, ok := readVarUint(b)
		if !ok || n > 1024 {
			return nil, nil, false
		}
		it := &vmItem{kind: k}
		for i := uint64(0); i < n; i++ {
			var x *vmItem
			x, rest, ok = decodeVMItem(rest, depth+1)
			if !ok {
				return nil, nil, false
			}
			it.items = append(it.items, x)
		}
		return it, rest, true
	case 0x48:
		n, rest, ok := readVarUint(b)
		if !ok || n > 1024 {
			return nil, nil, false
		}
		it := &vmItem{kind: k}
		for i := uint64(0); i < 2*n; i++ {
			var x *vmItem
			x, rest, ok = decodeVMItem(rest, depth+1)
			if !ok {
				return nil, nil, false
			}
			it.items = append(it.items, x)
		}
		return it, rest, true
	}
	return nil, nil, false
}

// leInt decodes a little-endian two's-complement integer (the VM's integer encoding).
func leInt(b []byte) *big.Int {
	if len(b) == 0 {
		return big.NewInt(0)
	}
	be := make([]byte, len(b))
	for i := range b {
		be[len(b)-1-i] = b[i]
	}
	v := new(big.Int).SetBytes(be)
	if be[0]&0x80 != 0 {
		v.Sub(v, new(big.Int).Lsh(big.NewInt(1), uint(8*len(b))))
	}
	return v
}

// itemTerm builds the SMT term of a VM item seen at a Go type of the model; ok=false if it does not fit.
func (e *Engine) itemTerm(it *vmItem, ty spec.Type) (*sx.T, bool) {
	switch ty.K {
	case spec.KInt:
		switch it.kind {
		case 0x21, 0x28, 0x30:
			if len(it.bytes) > 32 {
				return nil, false
			}
			return sx.IntS(leInt(it.bytes).String()), true
		case 0x20:
			if it.bytes[0] != 0 {
				return sx.Int(1), true
			}
			return sx.Int(0), true
		}
	case spec.KBool:
		switch it.kind {
		case 0x20:
			return sx.Bool(it.bytes[0] != 0), true
		case 0x21:
			return sx.Bool(leInt(it.bytes).Sign() != 0), true
		}
	case spec.KNB:
		switch it.kind {
		case 0x00:
			return spec.NilNB, true
		case 0x28, 0x30, 0x21:
			return spec.MkNB(sx.Str(string(it.bytes))), true
		}
	case spec.KStruct:
		fs := e.Structs[ty.Name]
		if (it.kind != 0x40 && it.kind != 0x41) || len(fs) != len(it.items) || len(fs) == 0 {
			return nil, false
		}
		var parts []*sx.T
		for i, f := range fs {
			t, ok := e.itemTerm(it.items[i], f.Ty)
			if !ok {
				return nil, false
			}
			parts = append(parts, t)
		}
		return sx.App("mk"+ty.Name, parts...), true
	case spec.KList:
		if it.kind == 0x00 {
			return e.zero(ty), true
		}
		if it.kind != 0x40 && it.kind != 0x41 {
			return nil, false
		}
		arr := sx.Atom("arr0_" + ty.Name)
		for i, x := range it.items {
			t, ok := e.itemTerm(x, e.Lists[ty.Name])
			if !ok {
				return nil, false
			}
			arr = sx.App("store", arr, sx.Int(int64(i)), t)
		}
		return sx.App("mk"+ty.Name, sx.Bool(false), sx.Int(int64(len(it.items))), arr), true
	}
	return nil, false
}

// splitObserved splits "[a,b,[c,d]]" into its top-level components.
func splitObserved(s string) ([]string, bool) {
	if len(s) < 2 || s[0] != '[' || s[len(s)-1] != ']' {
		return nil, false
	}
	s = s[1 : len(s)-1]
	var out []string
	depth, start := 0, 0
	for i := 0; i < len(s); i++ {
		switch s[i] {
		case '[':
			depth++
		case ']':
			depth--
		case ',':
			if depth == 0 {
				out = append(out, s[start:i])
				start = i + 1
			}
		}
	}
	if len(s) > 0 {
		out = append(out, s[start:])
	}
	return out, true
}

// observedTerm builds the term of an observed value ("i:..", "b:..", "null", "[..]") at a type of the model.
func (e *Engine) observedTerm(s string, ty spec.Type) (*sx.T, bool) {
	switch ty.K {
	case spec.KStruct:
		parts, ok := splitObserved(s)
		fs := e.Structs[ty.Name]
		if !ok || len(parts) != len(fs) {
			return nil, false
		}
		var ts []*sx.T
		for i, f := range fs {
			t, ok := e.observedTerm(parts[i], f.Ty)
			if !ok {
				return nil, false
			}
			ts = append(ts, t)
		}
		return sx.App("mk"+ty.Name, ts...), true
	case spec.KList:
		if s == "null" {
			return e.zero(ty), true
		}
		parts, ok := splitObserved(s)
		if !ok {
			return nil, false
		}
		arr := sx.Atom("arr0_" + ty.Name)
		for i, p := range parts {
			t, ok := e.observedTerm(p, e.Lists[ty.Name])
			if !ok {
				return nil, false
			}
			arr = sx.App("store", arr, sx.Int(int64(i)), t)
		}
		return sx.App("mk"+ty.Name, sx.Bool(false), sx.Int(int64(len(parts))), arr), true
	}
	return parseObserved(s, ty)
}

func parseObserved(s string, ty spec.Type) (*sx.T, bool) {
	switch {
	case s == "null":
		if ty.K == spec.KNB {
			return spec.NilNB, true
		}
	case strings.HasPrefix(s, "i:"):
		switch ty.K {
		case spec.KInt:
			return sx.IntS(s[2:]), true
		case spec.KBool:
			return sx.Bool(s[2:] != "0"), true
		case spec.KNB:
			// an integer item where bytes are expected: its minimal encoding
			v, _ := new(big.Int).SetString(s[2:], 10)
			return spec.MkNB(sx.Str(string(minimalLE(v)))), true
		}
	case strings.HasPrefix(s, "b:"):
		b, err := hex.DecodeString(s[2:])
		if err != nil {
			return nil, false
		}
		switch ty.K {
		case spec.KNB:
			return spec.MkNB(sx.Str(string(b))), true
		case spec.KInt:
			if len(b) <= 32 {
				return sx.IntS(leInt(b).String()), true
			}
		case spec.KBool:
			return sx.Bool(leInt(b).Sign() != 0), true
		}
	}
	return nil, false
}

func minimalLE(v *big.Int) []byte {
	if v.Sign() == 0 {
		return nil
	}
	for n := 1; n <= 33; n++ {
		lim := new(big.Int).Lsh(big.NewInt(1), uint(8*n-1))
		if v.Cmp(lim) < 0 && v.Cmp(new(big.Int).Neg(lim)) >= 0 {
			x := new(big.Int).Set(v)
			if x.Sign() < 0 {
				x.Add(x, new(big.Int).Lsh(big.NewInt(1), uint(8*n)))
			}
			be := x.Bytes()
			out := make([]byte, n)
			for i := range be {
				out[len(be)-1-i] = be[i]
			}
			return out
		}
	}
	return nil
}

// EvalOnObservation builds the query "the violation of the goal, with the model's witnesses, follows from what was
// observed on the real VM". unsat means the clause is refuted on the observation.
func (e *Engine) EvalOnObservation(pkgPath, fnKey, goal string, params map[string]spec.TV, result string, pre, post []RawCell,
	events []RawEvent, wits []RawWitness, committee bool, skVals []SkolemValue, renamed map[string]string) (q *smt.Query, err error) {
	defer func() {
		if r := recover(); r != nil {
			err = fmt.Errorf("%v", r)
		}
	}()
	e.bind()
	for pp := range e.Specs {
		e.RegisterStructs(pp)
	}
	sp := e.Specs[pkgPath]
	pkg := e.Pkgs[pkgPath]
	e.consts = nil
	e.fresh = 0
	v := &verifier{e: e, sp: sp, obls: map[string]*Obligation{}, pkg: pkg}
	var hyps []*sx.T
	mkStore := func(cells []RawCell) *sx.T {
		t := sx.MustParse1("((as const (Array String Opt)) None)")
		for _, c := range cells {
			t = sx.App("store", t, sx.Str(c.Key), sx.App("Some", sx.Str(c.Raw)))
		}
		return t
	}
	// facts about every raw value seen: integer decoding, deserialisation at every fitting struct / list sort, hashes
	seen := map[string]bool{}
	addRaw := func(raw string) {
		if seen[raw] {
			return
		}
		seen[raw] = true
		lit := sx.Str(raw)
		if len(raw) <= 32 {
			hyps = append(hyps, sx.App("=", sx.App("b2i", lit), sx.IntS(leInt([]byte(raw)).String())))
		}
		if it, rest, ok := decodeVMItem([]byte(raw), 0); ok && len(rest) == 0 {
			var names []string
			for n := range e.Structs {
				names = append(names, n)
			}
			sort.Strings(names)
			for _, n := range names {
				if t, ok := e.itemTerm(it, spec.Type{K: spec.KStruct, Name: n}); ok {
					hyps = append(hyps, sx.App("=", sx.App("deser_"+n, lit), t))
				}
			}
			var lnames []string
			for n := range e.Lists {
				lnames = append(lnames, n)
			}
			sort.Strings(lnames)
			for _, n := range lnames {
				if t, ok := e.itemTerm(it, spec.Type{K: spec.KList, Name: n}); ok {
					hyps = append(hyps, sx.App("=", sx.App("deser_"+n, lit), t))
				}
			}
		}
		sum := sha256.Sum256([]byte(raw))
		spec.Declare("uf:native_crypto_Sha256", "(declare-fun native_crypto_Sha256 (String) NB)")
		hyps = append(hyps, sx.App("=", sx.App("native_crypto_Sha256", lit), spec.MkNB(sx.Str(string(sum[:])))))
	}
	for _, c := range append(append([]RawCell{}, pre...), post...) {
		addRaw(c.Raw)
	}
	for _, p := range params {
		if p.Ty.K == spec.KNB && p.T.Head() == "mkNB" && p.T.L[1].A == "false" {
			if b, ok := decodeLit(p.T.L[2].A); ok {
				addRaw(b)
			}
		}
		if p.Ty.K == spec.KInt {
			if n, ok := new(big.Int).SetString(strings.NewReplacer("(- ", "-", ")", "").Replace(p.T.String()), 10); ok {
				hyps = append(hyps, sx.App("=", sx.App("i2b", p.T), sx.Str(string(minimalLE(n)))))
			}
		}
	}
	mkEnv := func(store *sx.T, log spec.LogVal) *spec.Env {
		st := &State{store: store, notifs: log, xcalls: spec.LogVal{Base: "xcalls0"}}
		var names []string
		var vals []Val
		for n, tv := range params {
			names = append(names, n)
			vals = append(vals, Val{TV: tv})
		}
		env := v.envAt(st, names, vals)
		return env
	}
	var evs []spec.Event
	for _, ev := range events {
		x := spec.Event{Name: ev.Name}
		for _, a := range ev.Args {
			switch {
			case strings.HasPrefix(a, "i:"):
				x.Args = append(x.Args, sx.IntS(a[2:]))
				x.Sorts = append(x.Sorts, "Int")
			case strings.HasPrefix(a, "b:"):
				b, _ := hex.DecodeString(a[2:])
				x.Args = append(x.Args, spec.MkNB(sx.Str(string(b))))
				x.Sorts = append(x.Sorts, "NB")
			case a == "null":
				x.Args = append(x.Args, spec.NilNB)
				x.Sorts = append(x.Sorts, "NB")
			default:
				panic("notification argument " + a + " is not a scalar")
			}
		}
		evs = append(evs, x)
	}
	preStore, postStore := mkStore(pre), mkStore(post)
	preEnv := mkEnv(preStore, spec.LogVal{Base: "notifs0"})
	postEnv := mkEnv(postStore, spec.LogVal{Base: "notifs0", Items: evs})
	postEnv.Old = preEnv
	v.pre = preEnv
	// witnesses
	for _, w := range wits {
		t := sx.App("W", sx.Str(w.Bytes))
		if !w.Holds {
			t = sx.Not(t)
		}
		hyps = append(hyps, t)
	}
	for _, f := range []string{"alphabet", "cmtaddr"} {
		t := sx.App("W", preEnv.Tr(&spec.ECall{Fn: f}).T)
		if !committee {
			t = sx.Not(t)
		}
		hyps = append(hyps, t)
	}
	// the clause
	var clause spec.Expr
	changed := len(events) > 0 || len(pre) != len(post)
	if !changed {
		for i := range pre {
			if pre[i] != post[i] {
				changed = true
			}
		}
	}
	switch {
	case strings.HasPrefix(goal, "ensures"):
		fs := sp.Funcs[fnKey]
		if fs == nil {
			return nil, fmt.Errorf("no contract for %s", fnKey)
		}
		var ord int
		fmt.Sscanf(goal, "ensures%d", &ord)
		for i := range fs.Clauses {
			if fs.Clauses[i].Kind == "ensures" && fs.Clauses[i].Ord == ord {
				clause = fs.Clauses[i].E
			}
		}
		// result
		if len(fs.Results) > 0 && result != "" {
			parts := []string{result}
			if len(fs.Results) > 1 { // the replay wrapper packs several results into one array
				if ps, ok := splitObserved(result); ok && len(ps) == len(fs.Results) {
					parts = ps
				}
			}
			for i, rn := range fs.Results {
				if i >= len(parts) {
					break
				}
				rt := e.resultType(pkgPath, fnKey, i)
				if t, ok := e.observedTerm(parts[i], rt); ok {
					postEnv.Vars[rn] = spec.TV{T: t, Ty: rt}
				}
			}
		}
	case strings.HasPrefix(goal, "inv."):
		for _, inv := range sp.Invs {
			if inv.Name == strings.TrimPrefix(goal, "inv.") {
				clause = inv.Body
			}
		}
	case goal == "witness":
		for i := range sp.Witness {
			if sp.Witness[i].Method == fnKey && !sp.Witness[i].Safe {
				// state change ==> requirement (read in the pre-state)
				postEnv.Vars["store"] = spec.TV{T: preStore, Ty: spec.Type{K: spec.KStore}}
				postEnv.Vars["anyWitness"] = spec.TV{T: sx.Bool(false), Ty: spec.Type{K: spec.KBool}}
				for _, w := range wits {
					if w.Holds {
						postEnv.Vars["anyWitness"] = spec.TV{T: sx.Bool(true), Ty: spec.Type{K: spec.KBool}}
					}
				}
				if committee {
					postEnv.Vars["anyWitness"] = spec.TV{T: sx.Bool(true), Ty: spec.Type{K: spec.KBool}}
				}
				clause = &spec.EBinary{Op: "==>", X: &spec.EBool{V: changed}, Y: sp.Witness[i].Req}
			}
		}
	case goal == "safe" || goal == "witness.unlisted":
		clause = &spec.EBool{V: !changed}
	}
	if clause == nil {
		return nil, fmt.Errorf("clause of %s not found", goal)
	}
	ct := postEnv.Tr(clause).T
	conj, sks, decls := smt.NegSkolem(ct)
	// the model's witnesses for the clause's universally quantified variables, in order of creation
	used := make([]bool, len(skVals))
	for _, sk := range sks {
		for i, sv := range skVals {
			if used[i] || sv.Var != sk.Var || sv.Sort != sk.Sort {
				continue
			}
			used[i] = true
			switch sk.Sort {
			case "Int":
				hyps = append(hyps, sx.App("=", sx.Atom(sk.Name), sx.MustParse1(sv.Value)))
			case "String":
				if b, ok := decodeLit(sv.Value); ok {
					for from, to := range renamed {
						fb, _ := hex.DecodeString(from)
						tb, _ := hex.DecodeString(to)
						b = strings.ReplaceAll(b, string(fb), string(tb))
					}
					hyps = append(hyps, sx.App("=", sx.Atom(sk.Name), sx.Str(b)))
				}
			}
			break
		}
	}
	dl, quants := e.Prelude(sp)
	consts := append([]smt.Var{}, e.consts...)
	consts = append(consts, decls...)
	v.axioms = nil
	qq := v.query(&State{store: postStore}, hyps, sx.And(conj...))
	qq.Decls, qq.Quants, qq.Consts = dl, quants, consts
	qq.Name = "replay-eval"
	return qq, nil
}

// resultType is the model type of the i-th result of a function of the package.
func (e *Engine) resultType(pkgPath, key string, i int) spec.Type {
	for f := range e.funcs {
		if e.fpkg[f].PkgPath == pkgPath && specKey(f) == key {
			res := f.Type().(*types.Signature).Results()
			if i < res.Len() {
				return e.typeOf(res.At(i).Type())
			}
		}
	}
	return spec.Type{K: spec.KUnit}
}
