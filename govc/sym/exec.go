package sym

import (
	"fmt"
	"go/ast"
	"go/constant"
	"go/token"
	"go/types"
	"os"
	"path/filepath"
	"strings"

	"golang.org/x/tools/go/packages"

	"govc/smt"
	"govc/spec"
	"govc/sx"
)

func calleeOf(info *types.Info, c *ast.CallExpr) types.Object {
	switch f := c.Fun.(type) {
	case *ast.Ident:
		return info.Uses[f]
	case *ast.SelectorExpr:
		return info.Uses[f.Sel]
	}
	return nil
}

func (e *Engine) toStored(v Val) *sx.T {
	switch v.Ty.K {
	case spec.KInt:
		return sx.App("i2b", v.T)
	case spec.KNB:
		return v.bytes()
	case spec.KBool:
		return sx.Ite(v.T, sx.Str("\x01"), sx.Str("\x00"))
	case spec.KOpt:
		return sx.App("val", v.T) // Put of Null faults: the caller adds the no-fault fact
	}
	return e.uf("stored_"+v.Ty.Sort(), spec.Type{K: spec.KBytes}, v).T
}

func has(fullName, suffix string) bool { return strings.HasSuffix(fullName, suffix) }

// keyBytes is the byte string of a storage key or prefix argument (declared `any` by the interop package).
func (e *Engine) keyBytes(v Val) *sx.T {
	if v.Ty.K == spec.KAny || v.Ty.K == spec.KInt {
		return e.convert(v, spec.Type{K: spec.KNB}).bytes()
	}
	return v.bytes()
}

func (e *Engine) call(fr *frame, st *State, c *ast.CallExpr, k func(st *State, rets []Val)) {
	info := fr.info
	if tv, ok := info.Types[c.Fun]; ok && tv.IsType() { // conversion
		to := e.typeOf(tv.Type)
		e.eval(fr, st, c.Args[0], func(st *State, v Val) {
			if v.Ty.K == to.K || v.Ty.K == spec.KUnit {
				k(st, []Val{v})
			} else {
				k(st, []Val{e.convert(v, to)})
			}
		})
		return
	}
	obj := calleeOf(info, c)
	if b, ok := obj.(*types.Builtin); ok {
		switch b.Name() {
		case "len":
			e.eval(fr, st, c.Args[0], func(st *State, v Val) {
				n := lenOf(v)
				if v.Ty.K == spec.KList || (e.Go64 && v.Ty.K == spec.KMap) { // program values are well-formed lists (a fact about this value, not an axiom on the sort)
					st.facts = append(st.facts, sx.App(">=", n, sx.Int(0)))
				}
				if e.Go64 && !isNumeral(n) { // a length is an int
					st.facts = append(st.facts, sx.App("<=", n, sx.IntS("9223372036854775807")))
				}
				k(st, []Val{mk(n, spec.KInt)})
			})
		case "make":
			ty := e.typeOf(info.Types[c.Args[0]].Type)
			if ty.K == spec.KMap {
				k(st, []Val{e.freshOf(ty, "map")})
				return
			}
			e.eval(fr, st, c.Args[1], func(st *State, n Val) {
				if ty.K == spec.KNB {
					if n.T.IsAtom() {
						var cn int
						if _, err := fmt.Sscanf(n.T.A, "%d", &cn); err == nil && cn >= 0 && cn <= 64 && fmt.Sprint(cn) == n.T.A {
							z := nbv(sx.Str(strings.Repeat("\x00", cn)))
							z.KnownLen = cn + 1
							for i := 0; i < cn; i++ {
								z.Cells = append(z.Cells, sx.Str("\x00"))
							}
							k(st, []Val{z})
							return
						}
					}
					z := e.uf("zeros", spec.Type{K: spec.KNB}, n)
					st.facts = append(st.facts, sx.App("=", sx.App("str.len", z.bytes()), n.T))
					k(st, []Val{z})
					return
				}
				l := e.freshOf(ty, "mk")
				st.facts = append(st.facts, sx.App("=", lenOf(l), n.T), sx.Not(sx.App(ty.Name+"_null", l.T)))
				k(st, []Val{l})
			})
		case "copy":
			e.evalList(fr, st, c.Args, func(st *State, vs []Val) {
				if id, ok := c.Args[0].(*ast.Ident); ok && vs[0].Ty.K == spec.KNB {
					if vs[0].KnownLen > 0 && len(vs[0].Cells) == vs[0].KnownLen-1 {
						// buffer of constant length: byte i comes from src if src is long enough
						src := e.name(st, nbv(vs[1].bytes()))
						sl := sx.App("str.len", src.bytes())
						r := Val{KnownLen: vs[0].KnownLen}
						for i, c := range vs[0].Cells {
							r.Cells = append(r.Cells, sx.Ite(sx.App("<", sx.Int(int64(i)), sl), sx.App("str.at", src.bytes(), sx.Int(int64(i))), c))
						}
						r.TV = nbv(cat(r.Cells...)).TV
						st.vars[info.Uses[id]] = r
						n := sx.Int(int64(len(r.Cells)))
						k(st, []Val{mk(sx.Ite(sx.App("<=", n, sl), n, sl), spec.KInt)})
						return
					}
					// copy(dst, src): the first min(len) bytes of src followed by the rest of dst
					dl, sl := sx.App("str.len", vs[0].bytes()), sx.App("str.len", vs[1].bytes())
					m := e.name(st, mk(sx.Ite(sx.App("<=", dl, sl), dl, sl), spec.KInt))
					r := nbv(cat(sx.App("str.substr", vs[1].bytes(), sx.Int(0), m.T), sx.App("str.substr", vs[0].bytes(), m.T, sx.App("-", dl, m.T))))
					r.KnownLen = vs[0].KnownLen
					nv := e.name(st, r)
					nv.KnownLen = r.KnownLen
					st.vars[info.Uses[id]] = nv
					k(st, []Val{m})
					return
				}
				panic("copy into a non-variable")
			})
		case "recover":
			k(st, []Val{e.freshOf(spec.Type{K: spec.KAny}, "rec")})
		case "append":
			if lt := e.typeOf(info.Types[c.Args[0]].Type); lt.K == spec.KList {
				e.evalList(fr, st, c.Args, func(st *State, vs []Val) {
					l := vs[0]
					if l.Ty.K != spec.KList {
						l = Val{TV: spec.TV{T: e.zero(lt), Ty: lt}}
					}
					if c.Ellipsis.IsValid() {
						k(st, []Val{e.uf("concat_"+lt.Sort(), lt, l, vs[1])})
						return
					}
					var items []*sx.T
					for _, v := range vs[1:] {
						items = append(items, e.box(v, e.Lists[lt.Name]))
					}
					st.facts = append(st.facts, sx.App(">=", lenOf(l), sx.Int(0)))
					// the result is named and its length stated, so that triggers over len(.) find the new list
					r := e.name(st, e.listAppend(l, items...))
					st.facts = append(st.facts, sx.App("=", sx.App(lt.Name+"_len", r.T), sx.App("+", lenOf(l), sx.Int(int64(len(items))))))
					k(st, []Val{r})
				})
				return
			}
			e.evalList(fr, st, c.Args, func(st *State, vs []Val) {
				parts := []*sx.T{vs[0].bytes()}
				var inRange []*sx.T
				for _, v := range vs[1:] {
					if v.Ty.K == spec.KInt {
						parts = append(parts, byteTerm(v))
						if !isNumeral(v.T) {
							inRange = append(inRange, sx.App("<=", sx.Int(0), v.T), sx.App("<=", v.T, sx.Int(255)))
						}
					} else {
						parts = append(parts, v.bytes())
					}
				}
				if len(inRange) == 0 {
					k(st, []Val{nbv(cat(parts...))})
					return
				}
				e.guard(fr, st, sx.And(inRange...), "value appended to a byte buffer is not a byte", func(st *State) { k(st, []Val{nbv(cat(parts...))}) })
			})
		case "panic":
			e.fault(fr, st, "panic")
		case "clear":
			// clear(m): the variable holds an empty map afterwards (clear of a nil map is a no-op: also empty)
			if id, ok := c.Args[0].(*ast.Ident); ok {
				if ty := e.typeOf(info.Types[c.Args[0]].Type); ty.K == spec.KMap {
					m := e.freshOf(ty, "map")
					st.facts = append(st.facts, sx.App("=", lenOf(m), sx.Int(0)))
					obj := info.Uses[id]
					if _, local := st.vars[obj]; local {
						st.vars[obj] = m
						k(st, nil)
						return
					}
				}
			}
			panic("clear of something other than a local map variable")
		default:
			panic("unsupported builtin " + b.Name())
		}
		return
	}
	if vobj, isVar := obj.(*types.Var); isVar {
		if _, isSig := vobj.Type().Underlying().(*types.Signature); isSig {
			if lv, ok := e.lookup(fr, st, vobj); ok && lv.Fn != nil {
				// a local variable bound to a function literal: run the literal's body in place (it shares the variables it captures)
				e.inlineLit(fr, st, lv.Fn, c.Args, k)
				return
			}
			// call of a function-typed parameter: recorded in the ghost log named after the parameter
			e.evalList(fr, st, c.Args, func(st *State, vs []Val) {
				ev := spec.Event{Name: vobj.Name()}
				for _, v := range vs {
					ev.Args = append(ev.Args, v.T)
					ev.Sorts = append(ev.Sorts, v.Ty.Sort())
				}
				pos := e.xlog(st, vobj.Name())
				e.xappend(st, vobj.Name(), ev)
				st.dirty = true
				e.havocAddressed(fr, st, c.Args)
				sig := vobj.Type().Underlying().(*types.Signature)
				if sig.Results().Len() == 1 {
					// the value the callback returns: cres("<name>", i) of the i-th call, an otherwise unconstrained value of its type
					rty := e.typeOf(sig.Results().At(0).Type())
					fnName := "cres_" + strings.NewReplacer(".", "_", "-", "_").Replace(vobj.Name())
					e.extraFn["cres:"+fnName] = fmt.Sprintf("(declare-fun %s (Int) Any)", fnName)
					boxed := Val{TV: spec.TV{T: sx.App(fnName, (&pos).LenT()), Ty: spec.Type{K: spec.KAny}}}
					switch rty.K {
					case spec.KInt:
						r := e.uf("unbox_Int", rty, boxed)
						if b, ok := sig.Results().At(0).Type().Underlying().(*types.Basic); ok && e.Go64 {
							switch b.Kind() {
							case types.Uint32:
								st.facts = append(st.facts, sx.App("<=", sx.Int(0), r.T), sx.App("<=", r.T, sx.IntS("4294967295")))
							case types.Uint64, types.Uint:
								st.facts = append(st.facts, sx.App("<=", sx.Int(0), r.T), sx.App("<=", r.T, sx.IntS("18446744073709551615")))
							}
						}
						k(st, []Val{r})
					default:
						k(st, []Val{e.freshOf(rty, "cb")})
					}
					return
				}
				k(st, nil)
			})
			return
		}
	}
	fn, ok := obj.(*types.Func)
	if !ok {
		panic(fmt.Sprintf("unsupported call %v", c.Fun))
	}
	full := fn.FullName()
	switch {
	case has(full, "interop/storage.GetContext"), has(full, "interop/storage.GetReadOnlyContext"), has(full, "interop/storage.Get"),
		has(full, "interop/storage.Put"), has(full, "interop/storage.Delete"), has(full, "interop/storage.Find"),
		has(full, "interop/iterator.Next"), has(full, "interop/iterator.Value"), has(full, "native/std.Serialize"), has(full, "native/std.Deserialize"),
		has(full, "interop/runtime.Log"), has(full, "interop/runtime.Notify"), has(full, "interop/runtime.CheckWitness"),
		has(full, "interop/runtime.GetCallingScriptHash"), has(full, ".Equals") && strings.Contains(full, "interop."):
	default:
		if e.interop(fr, st, c, fn, k) {
			return
		}
	}
	switch {
	case has(full, "interop/storage.GetContext"), has(full, "interop/storage.GetReadOnlyContext"):
		k(st, []Val{unit()})
		return
	case has(full, "interop/storage.Get"):
		e.evalList(fr, st, c.Args, func(st *State, vs []Val) {
			k(st, []Val{e.name(st, mk(sx.App("select", st.store, e.keyBytes(vs[1])), spec.KOpt))})
		})
		return
	case has(full, "interop/storage.Put"):
		e.evalList(fr, st, c.Args, func(st *State, vs []Val) {
			key := e.keyBytes(vs[1])
			put := func(st *State) {
				e.setStore(fr, st, sx.App("store", st.store, key, sx.App("Some", e.toStored(vs[2]))), key)
				k(st, nil)
			}
			if vs[2].Ty.K == spec.KOpt {
				e.guard(fr, st, sx.Not(sx.App("(_ is None)", vs[2].T)), "storage.Put of Null", put)
				return
			}
			put(st)
		})
		return
	case has(full, "interop/storage.Delete"):
		e.evalList(fr, st, c.Args, func(st *State, vs []Val) {
			key := e.keyBytes(vs[1])
			e.setStore(fr, st, sx.App("store", st.store, key, sx.Atom("None")), key)
			k(st, nil)
		})
		return
	case has(full, "interop/storage.Find"):
		e.evalList(fr, st, c.Args[:2], func(st *State, vs []Val) {
			tv := info.Types[c.Args[2]]
			if tv.Value == nil {
				panic("storage.Find with non-constant options")
			}
			opts, _ := constant.Int64Val(tv.Value)
			k(st, []Val{e.find(fr, st, vs[1], opts)})
		})
		return
	case has(full, "interop/iterator.Next"):
		id, ok := c.Args[0].(*ast.Ident)
		if !ok {
			panic("iterator.Next on a non-variable")
		}
		obj := info.Uses[id]
		iv := st.vars[obj]
		more := sx.App("<", iv.T, iv.Iter.lenT())
		e.branch(st, more, func(st *State) {
			nv := iv
			nv.T = sx.App("+", iv.T, sx.Int(1))
			st.vars[obj] = nv
			k(st, []Val{mk(sx.Bool(true), spec.KBool)})
		}, func(st *State) { k(st, []Val{mk(sx.Bool(false), spec.KBool)}) })
		return
	case has(full, "interop/iterator.Value"):
		e.eval(fr, st, c.Args[0], func(st *State, v Val) { k(st, []Val{e.iterValue(v)}) })
		return
	case has(full, "native/std.Serialize"):
		e.eval(fr, st, c.Args[0], func(st *State, v Val) {
			if v.Ty.K != spec.KStruct && v.Ty.K != spec.KList {
				k(st, []Val{e.uf("ser_"+v.Ty.Sort(), spec.Type{K: spec.KNB}, v)})
				return
			}
			k(st, []Val{nbv(sx.App("ser_"+v.Ty.Name, v.T))})
		})
		return
	case has(full, "native/std.Deserialize"):
		e.eval(fr, st, c.Args[0], func(st *State, v Val) {
			// deserialising an empty (or Null) byte string faults in the VM
			e.guard(fr, st, sx.App(">", sx.App("str.len", v.bytes()), sx.Int(0)), "std.Deserialize of empty data", func(st *State) {
				k(st, []Val{{TV: spec.TV{Ty: spec.Type{K: spec.KUnit}}, Deser: v.bytes()}})
			})
		})
		return
	case has(full, "interop/runtime.Log"):
		k(st, nil)
		return
	case has(full, "interop/runtime.Notify"):
		e.evalList(fr, st, c.Args[1:], func(st *State, vs []Val) {
			ev := spec.Event{Name: constant.StringVal(info.Types[c.Args[0]].Value)}
			var typed []*sx.T
			decl := e.eventTypes(fr.pkg)[ev.Name]
			for i, v := range vs {
				ev.Args = append(ev.Args, v.T)
				ev.Sorts = append(ev.Sorts, v.Ty.Sort())
				// the VM checks the arguments against the types the manifest declares for the event: a fixed-size type
				// accepts Null or exactly that many bytes, otherwise System.Runtime.Notify faults
				if i < len(decl) && v.Ty.K == spec.KNB {
					n := map[string]int{"hash160": 20, "hash256": 32, "publickey": 33}[strings.ToLower(decl[i])]
					if n > 0 {
						typed = append(typed, sx.Or(sx.App("isnull", v.T), sx.App("=", sx.App("str.len", v.bytes()), sx.Int(int64(n)))))
					}
				}
			}
			emit := func(st *State) {
				st.notifs.Items = append(st.notifs.Items, ev)
				st.dirty = true
				k(st, nil)
			}
			if len(typed) == 0 {
				emit(st)
				return
			}
			e.guard(fr, st, sx.And(typed...), "notification argument does not fit the type declared in the manifest", emit)
		})
		return
	case has(full, "interop/runtime.CheckWitness"):
		e.eval(fr, st, c.Args[0], func(st *State, v Val) { k(st, []Val{mk(sx.App("W", v.bytes()), spec.KBool)}) })
		return
	case has(full, "interop/runtime.GetCallingScriptHash"):
		k(st, []Val{nbv(sx.Atom("callingScriptHash"))})
		return
	case has(full, ".Equals") && strings.Contains(full, "interop."):
		sel := c.Fun.(*ast.SelectorExpr)
		e.eval(fr, st, sel.X, func(st *State, a Val) {
			e.eval(fr, st, c.Args[0], func(st *State, b Val) {
				k(st, []Val{mk(sx.EqT(a.bytes(), b.bytes()), spec.KBool)})
			})
		})
		return
	}
	decl := e.funcs[fn]
	if e.Go64 {
		// models of the few standard-library functions the deployment helpers use (dialect go64, A10)
		switch full {
		case "crypto/sha256.Sum256":
			e.evalList(fr, st, c.Args, func(st *State, vs []Val) {
				r := e.uf("crypto_sha256_Sum256", spec.Type{K: spec.KNB}, vs[0])
				st.facts = append(st.facts, sx.App("=", sx.App("str.len", r.bytes()), sx.Int(32)), sx.Not(sx.App("isnull", r.T)))
				k(st, []Val{r})
			})
			return
		case "github.com/nspcc-dev/neo-go/pkg/rpcclient/actor.DefaultCheckerModifier":
			// assumed (A10): checks the invocation result and leaves the transaction alone; its verdict is an opaque error value
			e.evalList(fr, st, c.Args, func(st *State, vs []Val) {
				k(st, []Val{e.uf("actor_DefaultCheckerModifier", spec.Type{K: spec.KAny}, vs[0])})
			})
			return
		case "github.com/nspcc-dev/neo-go/pkg/smartcontract.GetMajorityHonestNodeCount", "github.com/nspcc-dev/neo-go/pkg/smartcontract.GetDefaultHonestNodeCount":
			// assumed (A10), as defined by neo-go: n - (n-1)/2 and n - (n-1)/3 (Go division)
			d := int64(2)
			if strings.HasSuffix(full, "GetDefaultHonestNodeCount") {
				d = 3
			}
			e.evalList(fr, st, c.Args, func(st *State, vs []Val) {
				k(st, []Val{mk(sx.App("-", vs[0].T, spec.Tdiv(sx.App("-", vs[0].T, sx.Int(1)), sx.Int(d))), spec.KInt)})
			})
			return
		case "fmt.Errorf", "errors.New":
			// a new error value is never nil
			e.evalList(fr, st, c.Args, func(st *State, vs []Val) {
				r := e.freshOf(spec.Type{K: spec.KAny}, "err")
				st.facts = append(st.facts, sx.Not(sx.App("=", r.T, sx.Atom("AnyNull"))))
				k(st, []Val{r})
			})
			return
		case "(github.com/nspcc-dev/neo-go/pkg/util.Uint160).Equals", "(github.com/nspcc-dev/neo-go/pkg/util.Uint256).Equals":
			// fixed-size byte arrays compare by content
			e.evalList(fr, st, append([]ast.Expr{c.Fun.(*ast.SelectorExpr).X}, c.Args...), func(st *State, vs []Val) {
				k(st, []Val{mk(sx.EqT(vs[0].bytes(), vs[1].bytes()), spec.KBool)})
			})
			return
		case "bytes.HasPrefix":
			e.evalList(fr, st, c.Args, func(st *State, vs []Val) {
				k(st, []Val{mk(sx.App("str.prefixof", vs[1].bytes(), vs[0].bytes()), spec.KBool)})
			})
			return
		case "bytes.Equal":
			e.evalList(fr, st, c.Args, func(st *State, vs []Val) {
				k(st, []Val{mk(sx.EqT(vs[0].bytes(), vs[1].bytes()), spec.KBool)})
			})
			return
		}
	}
	if decl == nil && e.Go64 && fn.Pkg() != nil {
		e.externalCall(fr, st, c, fn, k)
		return
	}
	if decl == nil {
		panic("no body and no model for " + full)
	}
	var argExprs []ast.Expr
	if decl.Recv != nil {
		argExprs = append(argExprs, c.Fun.(*ast.SelectorExpr).X)
	}
	argExprs = append(argExprs, c.Args...)
	e.evalList(fr, st, argExprs, func(st *State, vs []Val) {
		// an untyped nil argument takes the type of the parameter it is passed for
		if sig, ok := fn.Type().(*types.Signature); ok {
			off := 0
			if decl.Recv != nil {
				off = 1
			}
			for i := off; i < len(argExprs) && i-off < sig.Params().Len(); i++ {
				if id, ok := argExprs[i].(*ast.Ident); ok && id.Name == "nil" {
					if ty := e.typeOf(sig.Params().At(i - off).Type()); ty.K != spec.KUnit && ty.K != vs[i].Ty.K {
						vs[i] = Val{TV: spec.TV{T: e.zeroGo(sig.Params().At(i - off).Type()), Ty: ty}}
					}
				}
			}
		}
		if fs := e.specOf(fn); fs != nil && fr.ver != nil && fr.ver.modular && !returnsIterator(fn) && !fs.Inline {
			// (a function handing out a storage iterator is a thin wrapper around storage.Find: callers inline it, its
			// own contract states which snapshot the iterator walks)
			if !fr.ver.explicitFaults || fs.Nofault {
				if e.Go64 && !fs.Pure {
					// a struct the callee reaches through a pointer parameter holds, after the call, whatever the contract says
					// about cur(p) - an otherwise unconstrained value
					recvPtr := false
					if r := fn.Type().(*types.Signature).Recv(); r != nil {
						_, recvPtr = r.Type().Underlying().(*types.Pointer)
					}
					if targets := e.pointerTargets(fr, argExprs, recvPtr); len(targets) > 0 {
						pnames, pobjs := paramNames(decl, e.fpkg[fn].TypesInfo)
						cur := map[string]spec.TV{}
						type wbT struct {
							lv ast.Expr
							v  Val
						}
						var wbs []wbT
						for _, t := range targets {
							if t.idx >= len(pobjs) || pobjs[t.idx] == nil {
								continue
							}
							if _, isPtr := pobjs[t.idx].Type().Underlying().(*types.Pointer); !isPtr {
								continue
							}
							fv := e.freshOf(e.typeOf(fr.info.Types[t.lv].Type), "cur")
							cur["$cur."+pnames[t.idx]] = fv.TV
							wbs = append(wbs, wbT{t.lv, fv})
						}
						e.curOverride = cur
						e.applyContract(fr, st, fn, decl, fs, vs, func(st *State, rets []Val) {
							for _, w := range wbs {
								if e.assignable(fr, st, w.lv) {
									e.assign(fr, st, w.lv, w.v)
								}
							}
							k(st, rets)
						})
						return
					}
				}
				e.applyContract(fr, st, fn, decl, fs, vs, k)
				return
			}
			// a nofault proof must see the callee's fault sites: no nofault contract there, so inline it
		}
		if e.Go64 {
			recvPtr := false
			if r := fn.Type().(*types.Signature).Recv(); r != nil {
				_, recvPtr = r.Type().Underlying().(*types.Pointer)
			}
			if targets := e.pointerTargets(fr, argExprs, recvPtr); len(targets) > 0 {
				_, pobjs := paramNames(decl, e.fpkg[fn].TypesInfo)
				e.inlineWB(fr, st, fn, decl, vs, func(st *State, final map[types.Object]Val) {
					// what the callee did to the pointee of a pointer parameter is what the caller's variable holds afterwards
					for _, t := range targets {
						if t.idx >= len(pobjs) || pobjs[t.idx] == nil {
							continue
						}
						if _, isPtr := pobjs[t.idx].Type().Underlying().(*types.Pointer); !isPtr {
							continue
						}
						if fv, ok := final[pobjs[t.idx]]; ok && fv.T != nil && e.assignable(fr, st, t.lv) {
							e.assign(fr, st, t.lv, fv)
						}
					}
				}, k)
				return
			}
		}
		e.inline(fr, st, fn, decl, vs, k)
	})
}

// externalCall (dialect go64) abstracts a call of a library function whose body is outside the verified packages: the
// call is recorded, with the values of its arguments, in the ghost log named <package>.<Type>.<Func>, and
// every result is an unconstrained value of its type. Nothing is assumed about what the callee computes (A10: it does not
// write to variables of the caller other than through what it returns).
func (e *Engine) externalCall(fr *frame, st *State, c *ast.CallExpr, fn *types.Func, k func(st *State, rets []Val)) {
	name := fn.Pkg().Name() + "." + specKey(fn)
	var argExprs []ast.Expr
	sig := fn.Type().(*types.Signature)
	recv := 0
	if sig.Recv() != nil {
		argExprs = append(argExprs, c.Fun.(*ast.SelectorExpr).X)
		recv = 1
	}
	argExprs = append(argExprs, c.Args...)
	e.evalList(fr, st, argExprs, func(st *State, vs []Val) {
		ev := spec.Event{Name: name}
		for _, v := range vs[recv:] { // the receiver (an object of the library) is evaluated but not part of the event

			if v.T == nil {
				continue
			}
			ev.Args = append(ev.Args, v.T)
			ev.Sorts = append(ev.Sorts, v.Ty.Sort())
		}
		e.xlog(st, name)
		e.xappend(st, name, ev)
		st.dirty = true
		e.havocAddressed(fr, st, argExprs)
		if pn := fn.Pkg().Name(); pn != "zap" && pn != "fmt" && pn != "errors" {
			// unverified code may change a struct it reaches through a pointer argument or its pointer receiver (the logging
			// and formatting libraries are assumed not to, A10)
			recvPtr := false
			if r := sig.Recv(); r != nil {
				_, recvPtr = r.Type().Underlying().(*types.Pointer)
			}
			for _, t := range e.pointerTargets(fr, argExprs, recvPtr) {
				if _, amp := argExprs[t.idx].(*ast.UnaryExpr); amp {
					continue // done by havocAddressed
				}
				if !e.assignable(fr, st, t.lv) {
					continue
				}
				e.assign(fr, st, t.lv, e.freshOf(e.typeOf(fr.info.Types[t.lv].Type), "ptr"))
			}
		}
		var rets []Val
		for i := 0; i < sig.Results().Len(); i++ {
			rets = append(rets, e.freshOf(e.typeOf(sig.Results().At(i).Type()), "ext"))
		}
		// the first two results of the i-th call are nameable in contracts as cres("<log name>", i) and cres2("<log name>", i)
		pos := e.xlog(st, name)
		at := sx.App("-", (&pos).LenT(), sx.Int(1))
		for i := 0; i < len(rets) && i < 2; i++ {
			if rets[i].T == nil {
				continue
			}
			fnName := []string{"cres_", "cres2_"}[i] + strings.NewReplacer(".", "_", "-", "_").Replace(name)
			e.extraFn["cres:"+fnName] = fmt.Sprintf("(declare-fun %s (Int) Any)", fnName)
			boxed := e.box(rets[i], spec.Type{K: spec.KAny})
			st.facts = append(st.facts, sx.App("=", sx.App(fnName, at), boxed))
			switch rets[i].Ty.K {
			case spec.KBool:
				st.facts = append(st.facts, sx.App("=", e.uf("unbox_Bool", spec.Type{K: spec.KBool}, Val{TV: spec.TV{T: boxed, Ty: spec.Type{K: spec.KAny}}}).T, rets[i].T))
			case spec.KInt:
				st.facts = append(st.facts, sx.App("=", e.uf("unbox_Int", spec.Type{K: spec.KInt}, Val{TV: spec.TV{T: boxed, Ty: spec.Type{K: spec.KAny}}}).T, rets[i].T))
			case spec.KStruct:
				spec.DeclareNilPtr(rets[i].Ty.Name)
				st.facts = append(st.facts, sx.App("=", sx.App("=", boxed, sx.Atom("AnyNull")), sx.App("isnilp_"+rets[i].Ty.Name, rets[i].T)))
			}
		}
		k(st, rets)
	})
}

// ptrTarget is an argument through which a callee can change a struct of the caller: parameter index and the place.
type ptrTarget struct {
	idx int
	lv  ast.Expr
}

// pointerTargets lists the arguments of a call whose static type is a pointer to a struct the model knows (or the
// addressable receiver of a pointer-receiver method): a pointer is identified with its pointee (dialect go64), so what
// the callee does to the pointee must flow back into the caller's variable.
func (e *Engine) pointerTargets(fr *frame, argExprs []ast.Expr, recvPtr bool) []ptrTarget {
	var out []ptrTarget
	for i, a := range argExprs {
		lv := a
		if u, ok := a.(*ast.UnaryExpr); ok && u.Op == token.AND {
			lv = u.X
		} else {
			tv, ok := fr.info.Types[a]
			if !ok || tv.Type == nil {
				continue
			}
			_, isPtr := tv.Type.Underlying().(*types.Pointer)
			if !isPtr && !(i == 0 && recvPtr) {
				continue
			}
		}
		switch lv.(type) {
		case *ast.Ident, *ast.SelectorExpr, *ast.IndexExpr:
		default:
			continue
		}
		if id, ok := lv.(*ast.Ident); ok && (id.Name == "nil" || id.Name == "_") {
			continue
		}
		tv, ok := fr.info.Types[lv]
		if !ok || tv.Type == nil {
			continue
		}
		isStruct := false
		func() {
			defer func() { recover() }()
			isStruct = e.typeOf(tv.Type).K == spec.KStruct
		}()
		if !isStruct {
			continue
		}
		out = append(out, ptrTarget{i, lv})
	}
	return out
}

// assignable reports whether the place is rooted in a variable the state binds (not a package-level library object).
func (e *Engine) assignable(fr *frame, st *State, lv ast.Expr) bool {
	for {
		switch t := lv.(type) {
		case *ast.SelectorExpr:
			lv = t.X
		case *ast.IndexExpr:
			lv = t.X
		case *ast.ParenExpr:
			lv = t.X
		case *ast.StarExpr:
			lv = t.X
		case *ast.Ident:
			obj := fr.info.Uses[t]
			if obj == nil {
				obj = fr.info.Defs[t]
			}
			_, ok := st.vars[obj]
			return ok
		default:
			return false
		}
	}
}

// havocAddressed: after a call of unverified code, every variable or field whose address was passed (&x) holds an
// unconstrained value of its type.
func (e *Engine) havocAddressed(fr *frame, st *State, args []ast.Expr) {
	for _, a := range args {
		u, ok := a.(*ast.UnaryExpr)
		if !ok || u.Op != token.AND {
			continue
		}
		if _, lit := u.X.(*ast.CompositeLit); lit {
			continue
		}
		e.assign(fr, st, u.X, e.freshOf(e.typeOf(fr.info.Types[u.X].Type), "addr"))
	}
}

func returnsIterator(fn *types.Func) bool {
	res := fn.Type().(*types.Signature).Results()
	for i := 0; i < res.Len(); i++ {
		if strings.HasSuffix(res.At(i).Type().String(), "interop/iterator.Iterator") {
			return true
		}
	}
	return false
}

func specKey(fn *types.Func) string {
	sig := fn.Type().(*types.Signature)
	if r := sig.Recv(); r != nil {
		t := r.Type()
		if p, ok := t.(*types.Pointer); ok {
			t = p.Elem()
		}
		if n, ok := t.(*types.Named); ok {
			return n.Obj().Name() + "." + fn.Name()
		}
	}
	return fn.Name()
}

func (e *Engine) specOf(fn *types.Func) *spec.FuncSpec {
	if fn.Pkg() == nil {
		return nil
	}
	sp := e.Specs[fn.Pkg().Path()]
	if sp == nil {
		return nil
	}
	return sp.Funcs[specKey(fn)]
}

func paramNames(decl *ast.FuncDecl, info *types.Info) (names []string, objs []types.Object) {
	add := func(fl *ast.FieldList) {
		if fl == nil {
			return
		}
		for _, f := range fl.List {
			for _, n := range f.Names {
				names = append(names, n.Name)
				objs = append(objs, info.Defs[n])
			}
		}
	}
	add(decl.Recv)
	add(decl.Type.Params)
	return
}

func (e *Engine) inline(caller *frame, st *State, fn *types.Func, decl *ast.FuncDecl, args []Val, k func(st *State, rets []Val)) {
	e.inlineWB(caller, st, fn, decl, args, nil, k)
}

// inlineWB is inline with a hook that sees the callee's variables at its (merged) exit before the caller's are restored.
func (e *Engine) inlineWB(caller *frame, st *State, fn *types.Func, decl *ast.FuncDecl, args []Val, wb func(st *State, final map[types.Object]Val), k func(st *State, rets []Val)) {
	if e.Sweep && caller.onStack(fn) {
		// sweep mode, recursive call: results are unknown; a callee that may write makes the state dirty
		if e.mayWrite(fn, 0) {
			st.store = e.sym("st", "Store")
			st.dirty = true
		}
		sig := fn.Type().(*types.Signature)
		rets := make([]Val, sig.Results().Len())
		for i := range rets {
			rets[i] = e.freshOf(e.typeOf(sig.Results().At(i).Type()), "rec")
		}
		k(st, rets)
		return
	}
	if caller.depth > 12 {
		panic("inlining depth exceeded at " + fn.FullName())
	}
	pkg := e.fpkg[fn]
	nf := &frame{fn: fn, pkg: pkg, info: pkg.TypesInfo, exits: caller.exits, depth: caller.depth + 1, ver: caller.ver, parent: caller}
	saved := st.vars
	st.vars = map[types.Object]Val{}
	_, objs := paramNames(decl, nf.info)
	for i, o := range objs {
		if i >= len(args) {
			// a variadic parameter that received no arguments is a nil slice
			func() {
				defer func() { recover() }()
				pt := e.typeOf(o.Type())
				if pt.K != spec.KUnit {
					st.vars[o] = Val{TV: spec.TV{T: e.zero(pt), Ty: pt}}
				} else {
					st.vars[o] = unit()
				}
			}()
			continue
		}
		a := args[i]
		if a.T != nil && sx.Eq(a.T, spec.NilNB) { // untyped nil argument: take the parameter's type
			if pt := e.typeOf(o.Type()); pt.K != spec.KNB && pt.K != spec.KUnit {
				a = Val{TV: spec.TV{T: e.zeroGo(o.Type()), Ty: pt}}
			}
		}
		st.vars[o] = a
	}
	e.bindNamedResults(st, decl, nf.info)
	nres := fn.Type().(*types.Signature).Results().Len()
	e.mergeN(caller, st, nres, func(kk func(st *State, rets []Val)) {
		nf.onRet = kk
		e.stmts(nf, st, decl.Body.List, func(st *State) { kk(st, nil) })
	}, func(st *State, rets []Val) {
		final := st.vars
		st.vars = cloneVars(saved)
		if wb != nil {
			wb(st, final)
		}
		k(st, rets)
	})
}

// inlineLit runs the body of a function literal at a call of the local variable it is bound to. The literal's parameters are
// fresh variables of the current activation; the variables it captures are the caller's own (same objects).
func (e *Engine) inlineLit(caller *frame, st *State, lit *ast.FuncLit, argExprs []ast.Expr, k func(st *State, rets []Val)) {
	if caller.depth > 12 {
		panic("inlining depth exceeded at a function literal of " + caller.fn.FullName())
	}
	e.evalList(caller, st, argExprs, func(st *State, vs []Val) {
		nf := &frame{fn: caller.fn, pkg: caller.pkg, info: caller.info, exits: caller.exits, depth: caller.depth + 1, ver: caller.ver, parent: caller}
		i := 0
		if lit.Type.Params != nil {
			for _, f := range lit.Type.Params.List {
				for _, n := range f.Names {
					if i < len(vs) {
						st.vars[caller.info.Defs[n]] = vs[i]
					}
					i++
				}
			}
		}
		nres := 0
		if lit.Type.Results != nil {
			nres = lit.Type.Results.NumFields()
		}
		e.mergeN(caller, st, nres, func(kk func(st *State, rets []Val)) {
			nf.onRet = kk
			e.stmts(nf, st, lit.Body.List, func(st *State) { kk(st, nil) })
		}, k)
	})
}

// mergeN is mergeBranches for continuations carrying several values.
func (e *Engine) mergeN(fr *frame, entry *State, n int, body func(kk func(st *State, rets []Val)), k func(st *State, rets []Val)) {
	if n <= 1 {
		e.mergeBranches(fr, entry, func(kk cont) {
			body(func(st *State, rets []Val) {
				if len(rets) == 0 {
					kk(st, unit())
				} else {
					kk(st, rets[0])
				}
			})
		}, func(st *State, v Val) {
			if n == 0 {
				k(st, nil)
			} else {
				k(st, []Val{v})
			}
		})
		return
	}
	// pack several results into synthetic variables so the single-value merge can handle them
	objs := make([]types.Object, n)
	for i := range objs {
		objs[i] = types.NewVar(token.NoPos, nil, fmt.Sprintf("$ret%d", i), nil)
	}
	e.mergeBranches(fr, entry, func(kk cont) {
		body(func(st *State, rets []Val) {
			for i, o := range objs {
				st.vars[o] = rets[i]
			}
			kk(st, unit())
		})
	}, func(st *State, _ Val) {
		rets := make([]Val, n)
		for i, o := range objs {
			rets[i] = st.vars[o]
			delete(st.vars, o)
		}
		k(st, rets)
	})
}

// ---- statements ------------------------------------------------------------------

func (e *Engine) stmts(fr *frame, st *State, ss []ast.Stmt, k func(st *State)) {
	if len(ss) == 0 {
		k(st)
		return
	}
	// a fault in (or below) an activation that has installed a recovering handler may end that activation normally
	for rf := fr; rf != nil; rf = rf.parent {
		if rf.recovering {
			rf.onRet(st.clone(), nil)
			break
		}
	}
	e.stmt(fr, st, ss[0], func(st *State) { e.stmts(fr, st, ss[1:], k) })
}

func (e *Engine) assign(fr *frame, st *State, lhs ast.Expr, v Val) {
	info := fr.info
	switch l := lhs.(type) {
	case *ast.Ident:
		if l.Name == "_" {
			return
		}
		obj := info.Defs[l]
		if obj == nil {
			obj = info.Uses[l]
		}
		if v.Deser != nil {
			panic("std.Deserialize result used without type assertion")
		}
		if v.Ty.K == spec.KNB && v.T != nil && sx.Eq(v.T, spec.NilNB) && obj != nil && obj.Type() != nil {
			// an untyped nil takes the type of the variable it is assigned to
			if want := e.typeOf(obj.Type()); want.K != spec.KUnit && want.K != spec.KNB {
				v = Val{TV: spec.TV{T: e.zeroGo(obj.Type()), Ty: want}}
			}
		}
		if _, local := st.vars[obj]; !local {
			if _, global := e.globals[obj]; global || (obj.Parent() != nil && obj.Parent() == obj.Pkg().Scope()) {
				e.globals[obj] = v
				return
			}
		}
		st.vars[obj] = e.name(st, v)
	case *ast.SelectorExpr:
		// x.f = v and nested forms x.f.g = v: the variable gets a new struct value with that one field replaced
		var path []string
		var x ast.Expr = l
		for {
			sel, ok := x.(*ast.SelectorExpr)
			if !ok {
				break
			}
			path = append([]string{sel.Sel.Name}, path...)
			x = sel.X
		}
		base, ok := x.(*ast.Ident)
		if !ok {
			e.assignPath(fr, st, lhs, v)
			return
		}
		obj := info.Uses[base]
		cur := st.vars[obj]
		st.vars[obj] = e.name(st, e.setField(cur, path, v))
	case *ast.IndexExpr:
		base, ok := l.X.(*ast.Ident)
		if !ok {
			e.assignPath(fr, st, lhs, v)
			return
		}
		obj := info.Uses[base]
		cur, _ := e.lookup(fr, st, obj)
		var idx Val
		e.eval(fr, st, l.Index, func(_ *State, i Val) { idx = i })
		switch cur.Ty.K {
		case spec.KNB:
			b := cur.bytes()
			nb := cat(sx.App("str.substr", b, sx.Int(0), idx.T), byteTerm(v), sx.App("str.substr", b, sx.App("+", idx.T, sx.Int(1)), sx.App("-", sx.App("str.len", b), sx.App("+", idx.T, sx.Int(1)))))
			st.facts = append(st.facts, sx.App("<=", sx.Int(0), idx.T), sx.App("<", idx.T, sx.App("str.len", b)))
			st.vars[obj] = e.name(st, nbv(nb))
		case spec.KList:
			st.facts = append(st.facts, sx.App("<=", sx.Int(0), idx.T), sx.App("<", idx.T, lenOf(cur)))
			st.vars[obj] = e.name(st, Val{TV: spec.TV{T: sx.App("mk"+cur.Ty.Name, sx.Bool(false), lenOf(cur), sx.App("store", arrOf(cur), idx.T, e.box(v, e.Lists[cur.Ty.Name]))), Ty: cur.Ty}})
		case spec.KMap:
			st.vars[obj] = e.uf("map_set", cur.Ty, cur, idx, v)
		default:
			panic("index assignment on " + cur.Ty.Sort())
		}
	default:
		panic(fmt.Sprintf("unsupported assignment target %T", lhs))
	}
}

// assignPath handles targets that mix fields and list indexes below a variable (x.f[i].g = v): values are functional, so
// the variable gets a new value with that one place replaced. An index out of range has no normal continuation.
func (e *Engine) assignPath(fr *frame, st *State, lhs ast.Expr, v Val) {
	type step struct {
		field string
		index ast.Expr
	}
	var steps []step
	x := lhs
loop:
	for {
		switch t := x.(type) {
		case *ast.SelectorExpr:
			steps = append([]step{{field: t.Sel.Name}}, steps...)
			x = t.X
		case *ast.IndexExpr:
			steps = append([]step{{index: t.Index}}, steps...)
			x = t.X
		case *ast.ParenExpr:
			x = t.X
		case *ast.StarExpr:
			x = t.X
		default:
			break loop
		}
	}
	base, ok := x.(*ast.Ident)
	if !ok {
		panic("unsupported assignment target")
	}
	obj := fr.info.Uses[base]
	cur, _ := e.lookup(fr, st, obj)
	var upd func(cur Val, steps []step) Val
	upd = func(cur Val, steps []step) Val {
		if len(steps) == 0 {
			return v
		}
		s := steps[0]
		if s.index == nil {
			if cur.Ty.K != spec.KStruct {
				panic("field assignment on a non-struct value")
			}
			var ft spec.Type
			var old *sx.T
			for j, f := range e.Structs[cur.Ty.Name] {
				if f.Name == s.field {
					ft = f.Ty
					if cur.T.Head() == "mk"+cur.Ty.Name {
						old = cur.T.L[j+1]
					} else {
						old = sx.App(cur.Ty.Name+"_"+f.Name, cur.T)
					}
				}
			}
			if old == nil {
				panic("no field " + s.field + " in " + cur.Ty.Name)
			}
			return e.setField(cur, []string{s.field}, upd(Val{TV: spec.TV{T: old, Ty: ft}}, steps[1:]))
		}
		if cur.Ty.K != spec.KList {
			panic("index assignment below a field on " + cur.Ty.Sort())
		}
		var idx Val
		e.eval(fr, st, s.index, func(_ *State, i Val) { idx = i })
		st.facts = append(st.facts, sx.App("<=", sx.Int(0), idx.T), sx.App("<", idx.T, lenOf(cur)))
		et := e.Lists[cur.Ty.Name]
		if et.K == spec.KAny && len(steps) > 1 {
			panic("assignment below an element of a list of dynamically typed items")
		}
		el := upd(Val{TV: spec.TV{T: sx.App("select", arrOf(cur), idx.T), Ty: et}}, steps[1:])
		return Val{TV: spec.TV{T: sx.App("mk"+cur.Ty.Name, sx.Bool(false), lenOf(cur), sx.App("store", arrOf(cur), idx.T, e.box(el, et))), Ty: cur.Ty}}
	}
	nv := upd(cur, steps)
	if _, local := st.vars[obj]; !local {
		if _, global := e.globals[obj]; global {
			e.globals[obj] = nv
			return
		}
	}
	st.vars[obj] = e.name(st, nv)
}

// setField returns the struct value cur with the field reached by path replaced by v.
func (e *Engine) setField(cur Val, path []string, v Val) Val {
	if cur.Ty.K != spec.KStruct {
		panic("field assignment on a non-struct value")
	}
	fs := e.Structs[cur.Ty.Name]
	parts := make([]*sx.T, len(fs))
	found := false
	for j, f := range fs {
		var old *sx.T
		if cur.T.Head() == "mk"+cur.Ty.Name {
			old = cur.T.L[j+1]
		} else {
			old = sx.App(cur.Ty.Name+"_"+f.Name, cur.T)
		}
		switch {
		case f.Name != path[0]:
			parts[j] = old
		case len(path) == 1:
			parts[j] = v.T
			found = true
		default:
			parts[j] = e.setField(Val{TV: spec.TV{T: old, Ty: f.Ty}}, path[1:], v).T
			found = true
		}
	}
	if !found {
		panic("no field " + path[0] + " in " + cur.Ty.Name)
	}
	return mkS(sx.App("mk"+cur.Ty.Name, parts...), cur.Ty.Name)
}

func (e *Engine) switchStmt(fr *frame, st *State, s *ast.SwitchStmt, k func(st *State)) {
	run := func(st *State, tag *Val) {
		var clauses []*ast.CaseClause
		var def *ast.CaseClause
		for _, c := range s.Body.List {
			cc := c.(*ast.CaseClause)
			if cc.List == nil {
				def = cc
			} else {
				clauses = append(clauses, cc)
			}
		}
		fr.loops = append(fr.loops, loopCtx{label: "", onBreak: k, onContinue: nil, isSwitch: true})
		defer func() { fr.loops = fr.loops[:len(fr.loops)-1] }()
		var try func(i int, st *State)
		try = func(i int, st *State) {
			if i == len(clauses) {
				if def != nil {
					e.stmts(fr, st, def.Body, k)
				} else {
					k(st)
				}
				return
			}
			cc := clauses[i]
			e.evalList(fr, st, cc.List, func(st *State, vs []Val) {
				var conds []*sx.T
				for _, v := range vs {
					if tag != nil {
						conds = append(conds, e.binop(token.EQL, *tag, v).T)
					} else {
						conds = append(conds, v.T)
					}
				}
				e.branch(st, sx.Or(conds...), func(st *State) { e.stmts(fr, st, cc.Body, k) }, func(st *State) { try(i+1, st) })
			})
		}
		try(0, st)
	}
	start := func(st *State) {
		if s.Tag == nil {
			run(st, nil)
			return
		}
		e.eval(fr, st, s.Tag, func(st *State, v Val) { run(st, &v) })
	}
	if s.Init != nil {
		e.stmt(fr, st, s.Init, start)
	} else {
		start(st)
	}
}

// rangeLoop desugars `for i, x := range xs` over lists and byte strings.
func (e *Engine) rangeLoop(fr *frame, st *State, label string, s *ast.RangeStmt, k func(st *State)) {
	info := fr.info
	e.eval(fr, st, s.X, func(st *State, xs Val) {
		run := func(st *State) {
			mapRange := false
			if xs.Ty.K == spec.KMap {
				if !e.Sweep && !e.Go64 {
					panic("range over a Go map (iteration order is unspecified): outside the subset")
				}
				// sweep mode: an unknown number of iterations over unknown keys and values (over-approximation);
				// dialect go64: len(m) iterations, each over an unconstrained key and value (the real enumeration is one instance)
				n := e.sym("maplen", "Int")
				st.facts = append(st.facts, sx.App(">=", n, sx.Int(0)))
				if e.Go64 && !e.Sweep {
					st.facts = append(st.facts, sx.App("=", n, lenOf(xs)))
				}
				xs = mk(n, spec.KInt)
				xs.Pair = nil
				mapRange = true
			}

			idxObj := types.Object(types.NewVar(token.NoPos, nil, "$i", types.Typ[types.Int]))
			var mapKeyObj types.Object
			if id, ok := s.Key.(*ast.Ident); ok && id.Name != "_" && mapRange {
				mapKeyObj = info.Defs[id]
				if mapKeyObj == nil {
					mapKeyObj = info.Uses[id]
				}
			} else if id, ok := s.Key.(*ast.Ident); ok && id.Name != "_" {
				if o := info.Defs[id]; o != nil {
					idxObj = o
				} else {
					idxObj = info.Uses[id]
				}
			}
			st.vars[idxObj] = mk(sx.Int(0), spec.KInt)
			var n *sx.T
			if xs.Ty.K == spec.KInt {
				n = xs.T // Go 1.22: for i := range n
			} else {
				n = lenOf(xs)
				if xs.Ty.K == spec.KList { // program values are well-formed lists
					st.facts = append(st.facts, sx.App(">=", n, sx.Int(0)))
				}
			}
			e.loopCore(fr, st, label, s, map[types.Object]bool{idxObj: true}, func(st *State, kk cont) {
				kk(st, mk(sx.App("<", st.vars[idxObj].T, n), spec.KBool))
			}, func(st *State, kk func(st *State)) {
				if mapKeyObj != nil {
					st.vars[mapKeyObj] = e.freshOf(e.typeOf(mapKeyObj.Type()), "mapkey")
				}
				if id, ok := s.Value.(*ast.Ident); ok && id.Name != "_" {
					o := info.Defs[id]
					if o == nil {
						o = info.Uses[id]
					}
					i := st.vars[idxObj].T
					if mapRange {
						st.vars[o] = e.freshOf(e.typeOf(o.Type()), "mapval")
					} else if xs.Ty.K == spec.KNB {
						st.vars[o] = mk(sx.App("str.to_code", sx.App("str.at", xs.bytes(), i)), spec.KInt)
					} else {
						st.vars[o] = Val{TV: spec.TV{T: sx.App("select", arrOf(xs), i), Ty: e.Lists[xs.Ty.Name]}}
					}
				}
				kk(st)
			}, func(st *State, kk func(st *State)) {
				cur := st.vars[idxObj]
				st.vars[idxObj] = mk(sx.App("+", cur.T, sx.Int(1)), spec.KInt)
				kk(st)
			}, s.Body, idxObj, k)
		}
		// neo-go compiles `range x` to SIZE without a null test (unlike len(x)): ranging over a nil slice faults
		if !e.Go64 && (xs.Ty.K == spec.KList || xs.Ty.K == spec.KNB) && xs.T != nil {
			notNull := sx.Not(sx.App("isnull", xs.T))
			if xs.Ty.K == spec.KList {
				notNull = sx.Not(sx.App(xs.Ty.Name+"_null", xs.T))
			}
			e.guard(fr, st, notNull, "range over a nil slice", run)
			return
		}
		run(st)
	})
}

func (e *Engine) stmt(fr *frame, st *State, s ast.Stmt, k func(st *State)) {
	info := fr.info
	switch s := s.(type) {
	case *ast.ExprStmt:
		e.eval(fr, st, s.X, func(st *State, _ Val) { k(st) })
	case *ast.DeclStmt:
		gd := s.Decl.(*ast.GenDecl)
		var specs []*ast.ValueSpec
		for _, sp := range gd.Specs {
			if vs, ok := sp.(*ast.ValueSpec); ok {
				specs = append(specs, vs)
			}
		}
		var do func(i int, st *State)
		do = func(i int, st *State) {
			if i == len(specs) {
				k(st)
				return
			}
			vs := specs[i]
			if len(vs.Values) == 0 {
				for _, n := range vs.Names {
					ty := e.typeOf(info.Defs[n].Type())
					st.vars[info.Defs[n]] = Val{TV: spec.TV{T: e.zeroGo(info.Defs[n].Type()), Ty: ty}}
				}
				do(i+1, st)
				return
			}
			e.evalList(fr, st, vs.Values, func(st *State, vals []Val) {
				for j, n := range vs.Names {
					st.vars[info.Defs[n]] = e.name(st, vals[j])
				}
				do(i+1, st)
			})
		}
		do(0, st)
	case *ast.AssignStmt:
		if ix, ok := s.Rhs[0].(*ast.IndexExpr); ok && len(s.Lhs) == 2 && len(s.Rhs) == 1 {
			// v, ok := m[k]: ok is map_has(m, k); v is the stored value if ok, the zero value otherwise
			e.eval(fr, st, ix.X, func(st *State, m Val) {
				e.eval(fr, st, ix.Index, func(st *State, i Val) {
					if m.Ty.K != spec.KMap {
						panic("comma-ok index of " + m.Ty.Sort())
					}
					has := e.uf("map_has", spec.Type{K: spec.KBool}, m, i)
					var vt spec.Type
					if tup, isTup := info.Types[ix].Type.(*types.Tuple); isTup {
						vt = e.typeOf(tup.At(0).Type())
					} else {
						vt = e.typeOf(info.Types[ix].Type)
					}
					got := e.convert(e.uf("map_get", spec.Type{K: spec.KAny}, m, i), vt)
					val := Val{TV: spec.TV{T: sx.Ite(has.T, got.T, e.zero(vt)), Ty: vt}}
					e.assign(fr, st, s.Lhs[0], e.name(st, val))
					e.assign(fr, st, s.Lhs[1], has)
					k(st)
				})
			})
			return
		}
		if len(s.Lhs) > 1 && len(s.Rhs) == 1 {
			e.call(fr, st, s.Rhs[0].(*ast.CallExpr), func(st *State, rets []Val) {
				for i, l := range s.Lhs {
					e.assign(fr, st, l, rets[i])
				}
				k(st)
			})
			return
		}
		if s.Tok != token.ASSIGN && s.Tok != token.DEFINE {
			op := map[token.Token]token.Token{token.ADD_ASSIGN: token.ADD, token.SUB_ASSIGN: token.SUB, token.MUL_ASSIGN: token.MUL}[s.Tok]
			e.eval(fr, st, s.Lhs[0], func(st *State, l Val) {
				e.eval(fr, st, s.Rhs[0], func(st *State, r Val) {
					res := e.binop(op, l, r)
					e.checkOverflow(fr, st, s.Lhs[0], res)
					e.assign(fr, st, s.Lhs[0], res)
					k(st)
				})
			})
			return
		}
		e.evalList(fr, st, s.Rhs, func(st *State, vs []Val) {
			for i, l := range s.Lhs {
				e.assign(fr, st, l, vs[i])
			}
			k(st)
		})
	case *ast.IncDecStmt:
		e.eval(fr, st, s.X, func(st *State, l Val) {
			op := "+"
			if s.Tok == token.DEC {
				op = "-"
			}
			r := mk(sx.App(op, l.T, sx.Int(1)), spec.KInt)
			e.checkOverflow(fr, st, s.X, r)
			e.assign(fr, st, s.X, r)
			k(st)
		})
	case *ast.IfStmt:
		run := func(st *State) {
			e.eval(fr, st, s.Cond, func(st *State, c Val) {
				// merge the fall-through states of the two branches
				e.mergeBranches(fr, st, func(kk cont) {
					e.branch(st, c.T, func(st *State) {
						e.stmts(fr, st, s.Body.List, func(st *State) { kk(st, unit()) })
					}, func(st *State) {
						switch el := s.Else.(type) {
						case nil:
							kk(st, unit())
						case *ast.BlockStmt:
							e.stmts(fr, st, el.List, func(st *State) { kk(st, unit()) })
						default:
							e.stmt(fr, st, el, func(st *State) { kk(st, unit()) })
						}
					})
				}, func(st *State, _ Val) { k(st) })
			})
		}
		if s.Init != nil {
			e.stmt(fr, st, s.Init, run)
		} else {
			run(st)
		}
	case *ast.ReturnStmt:
		if c, ok := s.Results, true; ok && len(c) == 1 && fr.fn != nil && fr.fn.Type().(*types.Signature).Results().Len() > 1 {
			// return f(...) of a call with several results
			if call, ok := c[0].(*ast.CallExpr); ok {
				e.call(fr, st, call, func(st *State, rets []Val) {
					fr.escaped++
					fr.onRet(st, rets)
				})
				return
			}
		}
		if len(s.Results) == 0 && fr.fn != nil && fr.depth >= 0 {
			// bare return of a function with named results: their current values
			if res := fr.fn.Type().(*types.Signature).Results(); res.Len() > 0 && res.At(0).Name() != "" {
				var vs []Val
				ok := true
				for i := 0; i < res.Len(); i++ {
					v, found := st.vars[res.At(i)]
					ok = ok && found
					vs = append(vs, v)
				}
				if ok {
					fr.escaped++
					fr.onRet(st, vs)
					return
				}
			}
		}
		e.evalList(fr, st, s.Results, func(st *State, vs []Val) {
			if fr.fn != nil {
				res := fr.fn.Type().(*types.Signature).Results()
				for i := range vs {
					if i < res.Len() && vs[i].T != nil && sx.Eq(vs[i].T, spec.NilNB) {
						if rt := e.typeOf(res.At(i).Type()); rt.K != spec.KNB && rt.K != spec.KUnit {
							vs[i] = Val{TV: spec.TV{T: e.zeroGo(res.At(i).Type()), Ty: rt}}
						}
					}
				}
			}
			fr.escaped++
			fr.onRet(st, vs)
		})
	case *ast.BlockStmt:
		e.stmts(fr, st, s.List, k)
	case *ast.SwitchStmt:
		e.switchStmt(fr, st, s, k)
	case *ast.RangeStmt:
		e.rangeLoop(fr, st, "", s, k)
	case *ast.DeferStmt:
		// Only the recovering form is in the subset: defer func() { if r := recover(); r != nil { ...may panic again... } }().
		// From here on a fault inside this activation (or its callees) may be caught: the function then returns normally
		// with the state it had when the faulting statement began (the VM reverts what a faulting callee did). The handler
		// itself must be free of effects. Modelled by forking a "recovered return" before every later statement (stmts).
		if id, isId := s.Call.Fun.(*ast.Ident); isId && e.Go64 && len(s.Call.Args) == 0 {
			// dialect go64: `defer cancel()` of a function value handed out by a library (context.WithCancel, ticker.Stop):
			// it runs at the exit, changes nothing the contracts speak about, and is not recorded (A10)
			if vobj, isVar := fr.info.Uses[id].(*types.Var); isVar {
				if lv, bound := e.lookup(fr, st, vobj); !bound || lv.Fn == nil {
					k(st)
					return
				}
			}
		}
		lit, ok := s.Call.Fun.(*ast.FuncLit)
		if !ok || len(s.Call.Args) != 0 {
			panic("defer of a named function is outside the verifier's subset")
		}
		recovers, effects := false, false
		ast.Inspect(lit.Body, func(n ast.Node) bool {
			if c, ok := n.(*ast.CallExpr); ok {
				if id, ok := c.Fun.(*ast.Ident); ok && id.Name == "recover" {
					recovers = true
				}
				if f, ok := calleeOf(fr.info, c).(*types.Func); ok && e.mayWrite(f, 0) {
					effects = true
				}
			}
			return true
		})
		if !recovers || effects {
			panic("deferred function without recover() or with effects is outside the verifier's subset")
		}
		if fr.fn.Type().(*types.Signature).Results().Len() != 0 {
			panic("defer/recover in a function with results is outside the verifier's subset")
		}
		fr.recovering = true
		k(st)
	case *ast.EmptyStmt:
		k(st)
	case *ast.ForStmt:
		e.loop(fr, st, "", s, s.Init, s.Cond, s.Post, s.Body, k)
	case *ast.LabeledStmt:
		if f, ok := s.Stmt.(*ast.ForStmt); ok {
			e.loop(fr, st, s.Label.Name, f, f.Init, f.Cond, f.Post, f.Body, k)
			return
		}
		if f, ok := s.Stmt.(*ast.RangeStmt); ok {
			e.rangeLoop(fr, st, s.Label.Name, f, k)
			return
		}
		e.stmt(fr, st, s.Stmt, k)
	case *ast.BranchStmt:
		for i := len(fr.loops) - 1; i >= 0; i-- {
			l := fr.loops[i]
			if s.Label != nil && l.label != s.Label.Name {
				continue
			}
			if l.isSwitch && (s.Tok == token.CONTINUE || s.Label != nil) {
				continue
			}
			fr.escaped++
			if s.Tok == token.BREAK {
				l.onBreak(st)
			} else {
				l.onContinue(st)
			}
			return
		}
		panic("break/continue outside loop")
	default:
		panic(fmt.Sprintf("unsupported statement %T", s))
	}
}

// ---- storage iterators ---------------------------------------------------------

const (
	optKeysOnly     = 1 << 0
	optRemovePrefix = 1 << 1
	optValuesOnly   = 1 << 2
	optDeserialize  = 1 << 3
	optBackwards    = 1 << 7
)

func (e *Engine) find(fr *frame, st *State, prefix Val, opts int64) Val {
	e.nsnaps++
	// name store and prefix so that the snapshot terms stay small
	pv := e.name(st, nbv(e.keyBytes(prefix)))
	it := &IterVal{ID: e.nsnaps, Store: st.store, Prefix: pv.bytes(), Opts: opts}
	spec.DeclareSnapshots()
	j := sx.Atom("j?snap")
	j2 := sx.Atom("i?snap")
	k := sx.Atom("k?snap")
	hasK := func(key *sx.T) *sx.T { return sx.Not(sx.App("(_ is None)", sx.App("select", it.Store, key))) }
	inRange := func(x *sx.T) *sx.T { return sx.And(sx.App("<=", sx.Int(0), x), sx.App("<", x, it.lenT())) }
	q := func(v, sort string, pat, body *sx.T) *sx.T {
		return sx.List(sx.Atom("forall"), sx.List(sx.List(sx.Atom(v), sx.Atom(sort))),
			sx.List(sx.Atom("!"), body, sx.Atom(":pattern"), sx.List(pat)))
	}
	// the axioms describe the ascending sequence skey(0..cnt-1), whatever the direction of this iterator
	order := sx.List(sx.Atom("forall"), sx.List(sx.List(j2, sx.Atom("Int")), sx.List(j, sx.Atom("Int"))),
		sx.List(sx.Atom("!"), sx.Implies(sx.And(sx.App("<=", sx.Int(0), j2), sx.App("<", j2, j), sx.App("<", j, it.lenT())), sx.App("str.<", it.akeyT(j2), it.akeyT(j))),
			sx.Atom(":pattern"), sx.List(it.akeyT(j2), it.akeyT(j))))
	st.facts = append(st.facts,
		sx.App(">=", it.lenT(), sx.Int(0)),
		q("j?snap", "Int", it.akeyT(j), sx.Implies(inRange(j), sx.And(hasK(it.akeyT(j)), sx.App("str.prefixof", it.Prefix, it.akeyT(j)), sx.App("=", it.aidxT(it.akeyT(j)), j)))),
		q("k?snap", "String", sx.App("select", it.Store, k), sx.Implies(sx.And(hasK(k), sx.App("str.prefixof", it.Prefix, k)), sx.And(inRange(it.aidxT(k)), sx.App("=", it.akeyT(it.aidxT(k)), k)))),
		order,
	)
	return Val{TV: spec.TV{T: sx.Int(0), Ty: spec.Type{K: spec.KInt}}, Iter: it}
}

// iterValue models iterator.Value for the item most recently returned by Next.
func (e *Engine) iterValue(v Val) Val {
	it := v.Iter
	cur := sx.App("-", v.T, sx.Int(1))
	key := it.keyT(cur)
	val := sx.App("val", sx.App("select", it.Store, key))
	if it.Opts&optRemovePrefix != 0 {
		key = sx.App("str.substr", key, sx.App("str.len", it.Prefix), sx.App("-", sx.App("str.len", key), sx.App("str.len", it.Prefix)))
	}
	switch {
	case it.Opts&optKeysOnly != 0:
		return nbv(key)
	case it.Opts&optValuesOnly != 0:
		if it.Opts&optDeserialize != 0 {
			return Val{TV: spec.TV{Ty: spec.Type{K: spec.KUnit}}, Deser: val}
		}
		return nbv(val)
	}
	v2 := nbv(val)
	if it.Opts&optDeserialize != 0 {
		v2 = Val{TV: spec.TV{Ty: spec.Type{K: spec.KUnit}}, Deser: val}
	}
	return Val{TV: spec.TV{Ty: spec.Type{K: spec.KUnit}}, Pair: &[2]Val{nbv(key), v2}}
}

// ---- loops -------------------------------------------------------------------

// mayWrite: may calling fn change storage, emit a notification or make a state-changing call?
func (e *Engine) mayWrite(fn *types.Func, depth int) bool {
	if v, ok := e.writes[fn]; ok {
		return v
	}
	full := fn.FullName()
	if strings.Contains(full, "neo-go/pkg/interop") {
		switch {
		case has(full, "interop/storage.Put"), has(full, "interop/storage.Delete"), has(full, "interop/runtime.Notify"),
			has(full, "interop/contract.Call"), has(full, "native/gas.Transfer"), has(full, "native/neo.Transfer"), has(full, "native/neo.Vote"),
			has(full, "interop/runtime.BurnGas"), strings.Contains(full, "native/management.Update"), strings.Contains(full, "native/notary."),
			strings.Contains(full, "native/roles.Designate"):
			return true
		}
		return false
	}
	decl := e.funcs[fn]
	if decl == nil || depth > 20 {
		return true
	}
	e.writes[fn] = false // recursion guard
	res := false
	info := e.fpkg[fn].TypesInfo
	ast.Inspect(decl.Body, func(x ast.Node) bool {
		if c, ok := x.(*ast.CallExpr); ok {
			if f, ok := calleeOf(info, c).(*types.Func); ok && e.mayWrite(f, depth+1) {
				// a read-only contract.Call does not write
				if has(f.FullName(), "interop/contract.Call") && len(c.Args) > 2 {
					if tv := info.Types[c.Args[2]]; tv.Value != nil {
						if fl, ok := constant.Int64Val(tv.Value); ok && !flagsWrite(fl) {
							return true
						}
					}
				}
				res = true
			}
		}
		return !res
	})
	e.writes[fn] = res
	return res
}

// mayLog: may calling fn emit a notification or call another contract?
func (e *Engine) mayLog(fn *types.Func, depth int) bool {
	if v, ok := e.logs[fn]; ok {
		return v
	}
	full := fn.FullName()
	if strings.Contains(full, "neo-go/pkg/interop") {
		switch {
		case has(full, "interop/runtime.Notify"), has(full, "interop/contract.Call"), has(full, "native/gas.Transfer"), has(full, "native/neo.Transfer"),
			has(full, "native/neo.Vote"), has(full, "interop/runtime.BurnGas"), strings.Contains(full, "native/management.Update"),
			strings.Contains(full, "native/notary."), strings.Contains(full, "native/roles.Designate"):
			return true
		}
		return false
	}
	decl := e.funcs[fn]
	if decl == nil || depth > 20 {
		return true
	}
	e.logs[fn] = false
	res := false
	info := e.fpkg[fn].TypesInfo
	ast.Inspect(decl.Body, func(x ast.Node) bool {
		if c, ok := x.(*ast.CallExpr); ok {
			if f, ok := calleeOf(info, c).(*types.Func); ok && e.mayLog(f, depth+1) {
				res = true
			}
		}
		return !res
	})
	e.logs[fn] = res
	return res
}

func (e *Engine) assignedIn(info *types.Info, n ast.Node) (vars map[types.Object]bool, effects bool) {
	vars = map[types.Object]bool{}
	ast.Inspect(n, func(x ast.Node) bool {
		switch x := x.(type) {
		case *ast.AssignStmt:
			for _, l := range x.Lhs {
				if id, ok := l.(*ast.Ident); ok {
					if o := info.Uses[id]; o != nil {
						vars[o] = true
					}
				}
				if sel, ok := l.(*ast.SelectorExpr); ok {
					var x ast.Expr = sel
					for {
						s2, ok := x.(*ast.SelectorExpr)
						if !ok {
							break
						}
						x = s2.X
					}
					if id, ok := x.(*ast.Ident); ok {
						if o := info.Uses[id]; o != nil {
							vars[o] = true
						}
					}
				}
			}
		case *ast.IncDecStmt:
			if id, ok := x.X.(*ast.Ident); ok {
				if o := info.Uses[id]; o != nil {
					vars[o] = true
				}
			}
		case *ast.CallExpr:
			if o := calleeOf(info, x); o != nil {
				if vv, ok := o.(*types.Var); ok {
					if _, isSig := vv.Type().Underlying().(*types.Signature); isSig {
						effects = true
					}
				}
				if f, ok := o.(*types.Func); ok {
					full := f.FullName()
					switch {
					case has(full, "interop/iterator.Next"):
						if id, ok := x.Args[0].(*ast.Ident); ok {
							vars[info.Uses[id]] = true
						}
					default:
						if e.mayWrite(f, 0) {
							effects = true
						}
					}
				}
			}
		}
		return true
	})
	return
}

func (e *Engine) loop(fr *frame, st *State, label string, node ast.Node, init ast.Stmt, cond ast.Expr, post ast.Stmt, body *ast.BlockStmt, k func(st *State)) {
	run := func(st *State) {
		e.loopCore(fr, st, label, node, nil, func(st *State, kk cont) {
			if cond == nil {
				kk(st, mk(sx.Bool(true), spec.KBool))
				return
			}
			e.eval(fr, st, cond, kk)
		}, func(st *State, kk func(st *State)) { kk(st) }, func(st *State, kk func(st *State)) {
			if post != nil {
				e.stmt(fr, st, post, kk)
			} else {
				kk(st)
			}
		}, body, nil, k)
	}
	if init != nil {
		e.stmt(fr, st, init, run)
	} else {
		run(st)
	}
}

// loopOrdinal is the position of a loop among the loops of its function, in source order.
func (e *Engine) loopOrdinal(fn *types.Func, node ast.Node) int {
	ord, n := -1, 0
	ast.Inspect(e.funcs[fn].Body, func(x ast.Node) bool {
		switch x.(type) {
		case *ast.ForStmt, *ast.RangeStmt:
			if x == node {
				ord = n
			}
			n++
		}
		return true
	})
	return ord
}

// loopCore cuts a loop by its invariants (or, in sweep mode, by the syntactic frame alone).
func (e *Engine) loopCore(fr *frame, st *State, label string, node ast.Node, extraAssigned map[types.Object]bool,
	evalCond func(st *State, kk cont), pre func(st *State, kk func(st *State)), post func(st *State, kk func(st *State)),
	body *ast.BlockStmt, idxObj types.Object, k func(st *State)) {
	ord := e.loopOrdinal(fr.fn, node)
	v := fr.ver
	var ls *spec.LoopSpec
	if fs := e.specOf(fr.fn); fs != nil {
		for i := range fs.Loops {
			if fs.Loops[i].Ord == ord {
				ls = &fs.Loops[i]
			}
		}
	}
	if (ls == nil || v == nil) && !e.Sweep {
		panic(fmt.Sprintf("loop %d of %s has no invariant", ord, fr.fn.Name()))
	}
	if ls == nil {
		ls = &spec.LoopSpec{Ord: ord} // sweep mode: frame-only havoc, no invariant
	}
	base := fr.pkg.Types.Name() + "." + specKey(fr.fn)
	if fr.parent != nil {
		// a loop of an inlined callee: its invariants are obligations of the function being verified
		top := fr
		for top.parent != nil {
			top = top.parent
		}
		base = top.pkg.Types.Name() + "." + specKey(top.fn) + ">" + specKey(fr.fn)
	}
	// which iterator does the guard advance?
	var itObj types.Object
	ast.Inspect(node, func(n ast.Node) bool {
		if f, ok := n.(*ast.ForStmt); ok && n == node {
			if c, ok := f.Cond.(*ast.CallExpr); ok {
				if o, ok := calleeOf(fr.info, c).(*types.Func); ok && has(o.FullName(), "interop/iterator.Next") {
					if id, ok := c.Args[0].(*ast.Ident); ok {
						itObj = fr.info.Uses[id]
					}
				}
			}
		}
		return n == node
	})
	entryState := st
	loopEnv := func(st *State) *spec.Env {
		env := v.envForAt(fr, st, node.End())
		env.Entry = v.envForAt(fr, entryState, node.End())
		if itObj != nil {
			iv := st.vars[itObj]
			env.Vars["$it.pos"] = spec.TV{T: iv.T, Ty: spec.Type{K: spec.KInt}}
			env.Vars["$it.len"] = spec.TV{T: iv.Iter.lenT(), Ty: spec.Type{K: spec.KInt}}
			env.Funcs = map[string]func([]spec.TV) spec.TV{
				"$it.key": func(a []spec.TV) spec.TV {
					return spec.TV{T: iv.Iter.keyT(a[0].T), Ty: spec.Type{K: spec.KBytes}}
				},
				"$it.idx": func(a []spec.TV) spec.TV {
					t := a[0].T
					if a[0].Ty.K == spec.KNB {
						t = spec.Bv(t)
					}
					return spec.TV{T: iv.Iter.idxT(t), Ty: spec.Type{K: spec.KInt}}
				},
			}
		}
		if idxObj != nil {
			env.Vars["$i"] = st.vars[idxObj].TV
		}
		return env
	}
	for _, inv := range ls.Invs {
		for _, g := range smt.SplitGoal(loopEnv(st).Tr(inv.E).T) {
			v.add(fmt.Sprintf("%s#loop%d.inv%d.entry", base, ord, inv.Ord), nil, inv.Text, v.query(st, nil, g))
		}
	}
	assigned, effects := e.assignedIn(fr.info, node)
	for o := range extraAssigned {
		assigned[o] = true
	}
	h := st.clone()
	for o := range assigned {
		cur, ok := h.vars[o]
		if !ok {
			continue
		}
		nv := cur
		switch {
		case cur.Iter != nil:
			nv.T = e.sym("pos", "Int")
			h.facts = append(h.facts, sx.App("<=", sx.Int(0), nv.T), sx.App("<=", nv.T, cur.Iter.lenT()))
		case o == idxObj:
			nv.T = e.sym("i", "Int")
			h.facts = append(h.facts, sx.App("<=", sx.Int(0), nv.T))
		case cur.T != nil:
			nv.T = e.sym("h", cur.Ty.Sort())
		}
		h.vars[o] = nv
	}
	if effects {
		h.store = e.sym("st", "Store")
		h.notifs = spec.LogVal{Base: e.sym("notifs", "Int").A}
		h.xcalls = spec.LogVal{Base: e.sym("xcalls", "Int").A}
		h.facts = append(h.facts, sx.App(">=", sx.Atom(h.notifs.Base), sx.Int(0)), sx.App(">=", sx.Atom(h.xcalls.Base), sx.Int(0)))
		h.xgen = e.nextGen()
		h.xm = map[string]spec.LogVal{} // every per-method log gets a fresh base on its next use
		if e.Sweep {
			h.dirty = true // may have been made dirty by earlier iterations
		}
	}
	if e.Sweep && effects {
		// frame inference: a dry run of one arbitrary iteration collects the keys the body writes; if each has a
		// literal prefix, everything outside these prefixes is unchanged by the loop (at the head of any iteration)
		if prefixes, ok := e.dryWrites(fr, h, evalCond, pre, post, body); ok {
			kq := sx.Atom("k?frame")
			var outside []*sx.T
			for _, p := range prefixes {
				outside = append(outside, sx.Not(sx.App("str.prefixof", sx.Str(p), kq)))
			}
			h.facts = append(h.facts, sx.List(sx.Atom("forall"), sx.List(sx.List(kq, sx.Atom("String"))),
				sx.List(sx.Atom("!"), sx.Implies(sx.And(outside...), sx.App("=", sx.App("select", h.store, kq), sx.App("select", st.store, kq))),
					sx.Atom(":pattern"), sx.List(sx.App("select", h.store, kq)))))
		}
	}
	for _, inv := range ls.Invs {
		h.facts = append(h.facts, loopEnv(h).Tr(inv.E).T)
	}
	preserve := func(st *State) {
		post(st, func(st *State) {
			for _, inv := range ls.Invs {
				for _, g := range smt.SplitGoal(loopEnv(st).Tr(inv.E).T) {
					if os.Getenv("VERIF_DEBUG_PRESERVE") != "" {
						fmt.Fprintf(os.Stderr, "preserve inv%d dry=%d goal=%s\n", inv.Ord, e.dry, g.String())
					}
					v.add(fmt.Sprintf("%s#loop%d.inv%d.preserve", base, ord, inv.Ord), nil, inv.Text, v.query(st, nil, g))
				}
			}
			if e.Sweep && fr.ver != nil && fr.ver.onIter != nil {
				fr.ver.onIter(st)
			}
		})
	}
	fr.loops = append(fr.loops, loopCtx{label: label, onBreak: k, onContinue: preserve})
	depth := len(fr.loops)
	evalCond(h, func(st *State, c Val) {
		e.branch(st, c.T, func(st *State) {
			fr.loops = fr.loops[:depth]
			pre(st, func(st *State) { e.stmts(fr, st, body.List, preserve) })
		}, func(st *State) {
			fr.loops = fr.loops[:depth-1]
			k(st)
		})
	})
	fr.loops = fr.loops[:depth-1]
}

// literalPrefix finds a constant prefix of a key term: a string literal, the head of a concatenation, the prefix
// of a Find snapshot the key was taken from, or the same through a definition.
func literalPrefix(t *sx.T, defs map[string]*sx.T, depth int) (string, bool) {
	if depth > 12 {
		return "", false
	}
	if t.IsAtom() {
		if strings.HasPrefix(t.A, "\"") {
			s, ok := decodeLit(t.A)
			return s, ok && s != ""
		}
		if d, ok := defs[t.A]; ok {
			return literalPrefix(d, defs, depth+1)
		}
		return "", false
	}
	switch t.Head() {
	case "str.++":
		return literalPrefix(t.L[1], defs, depth+1)
	case "skey": // a key of the snapshot of Find(prefix) starts with that prefix
		return literalPrefix(t.L[2], defs, depth+1)
	case "bv":
		return literalPrefix(t.L[1], defs, depth+1)
	case "mkNB":
		return literalPrefix(t.L[2], defs, depth+1)
	case "ite":
		a, ok1 := literalPrefix(t.L[2], defs, depth+1)
		b, ok2 := literalPrefix(t.L[3], defs, depth+1)
		if ok1 && ok2 {
			n := 0
			for n < len(a) && n < len(b) && a[n] == b[n] {
				n++
			}
			return a[:n], n > 0
		}
	}
	return "", false
}

// decodeLit decodes an SMT-LIB string literal produced by sx.Str.
func decodeLit(lit string) (string, bool) {
	if len(lit) < 2 {
		return "", false
	}
	s := lit[1 : len(lit)-1]
	var out []byte
	for i := 0; i < len(s); {
		switch {
		case strings.HasPrefix(s[i:], "\\u{"):
			j := strings.IndexByte(s[i:], '}')
			if j < 0 {
				return "", false
			}
			var v int
			if _, err := fmt.Sscanf(s[i+3:i+j], "%x", &v); err != nil {
				return "", false
			}
			out = append(out, byte(v))
			i += j + 1
		default:
			out = append(out, s[i])
			i++
		}
	}
	return string(out), true
}

// dryWrites executes one arbitrary iteration of a loop (guard, body, post) from the havocked head state h without
// producing obligations or exits, and returns the literal prefixes of all keys written. ok is false if some key has
// no literal prefix.
func (e *Engine) dryWrites(fr *frame, h *State, evalCond func(st *State, kk cont), pre func(st *State, kk func(st *State)),
	post func(st *State, kk func(st *State)), body *ast.BlockStmt) (prefixes []string, ok bool) {
	var log []writeRec
	savedLog, savedExits, savedRet, savedLoops := e.writeLog, fr.exits, fr.onRet, fr.loops
	savedFaults := e.nfaults
	var dummy []Exit
	e.writeLog, fr.exits = &log, &dummy
	fr.onRet = func(*State, []Val) {}
	e.dry++
	defer func() {
		e.dry--
		e.writeLog, fr.exits, fr.onRet, fr.loops = savedLog, savedExits, savedRet, savedLoops
		e.nfaults = savedFaults
		if r := recover(); r != nil {
			prefixes, ok = nil, false
		}
		if savedLog != nil { // nested dry run: the outer run sees these writes too
			*savedLog = append(*savedLog, log...)
		}
	}()
	fr.loops = append(append([]loopCtx{}, savedLoops...), loopCtx{onBreak: func(*State) {}, onContinue: func(*State) {}})
	evalCond(h.clone(), func(st *State, c Val) {
		e.branch(st, c.T, func(st *State) {
			pre(st, func(st *State) {
				e.stmts(fr, st, body.List, func(st *State) { post(st, func(*State) {}) })
			})
		}, func(*State) {})
	})
	seen := map[string]bool{}
	for _, w := range log {
		defs := map[string]*sx.T{}
		for _, d := range w.defs {
			if d.Head() == "=" && len(d.L) == 3 && d.L[1].IsAtom() {
				defs[d.L[1].A] = d.L[2]
			}
		}
		p, ok := literalPrefix(w.key, defs, 0)
		if !ok {
			return nil, false
		}
		if !seen[p] {
			seen[p] = true
			prefixes = append(prefixes, p)
		}
	}
	return prefixes, true
}

// checkOverflow: in the go64 dialect integers are fixed-width. Instead of modelling wrap-around, every + - * ++ --
// on a typed integer gets an obligation that the mathematical result fits the type; once discharged, mathematical
// and machine arithmetic agree on every path.
func (e *Engine) checkOverflow(fr *frame, st *State, typed ast.Expr, r Val) {
	if !e.Go64 || fr.ver == nil || r.Ty.K != spec.KInt {
		return
	}
	tv, ok := fr.info.Types[typed]
	if !ok || tv.Type == nil {
		return
	}
	b, ok := tv.Type.Underlying().(*types.Basic)
	if !ok || b.Info()&types.IsInteger == 0 {
		return
	}
	var lo, hi string
	switch b.Kind() {
	case types.Uint8:
		lo, hi = "0", "255"
	case types.Uint16:
		lo, hi = "0", "65535"
	case types.Uint32:
		lo, hi = "0", "4294967295"
	case types.Uint64, types.Uint, types.Uintptr:
		lo, hi = "0", "18446744073709551615"
	case types.Int8:
		lo, hi = "-128", "127"
	case types.Int16:
		lo, hi = "-32768", "32767"
	case types.Int32:
		lo, hi = "-2147483648", "2147483647"
	case types.Int64, types.Int:
		lo, hi = "-9223372036854775808", "9223372036854775807"
	default:
		return
	}
	if len(hi) > 12 {
		for f := fr; f != nil; f = f.parent { // the function under contract (or one inlined into it) declares 64-bit arithmetic mathematical
			if fs := e.specOf(f.fn); fs != nil && fs.WideInt {
				return
			}
		}
	}
	base := fr.pkg.Types.Name() + "." + specKey(fr.fn)
	line := fr.pkg.Fset.Position(typed.Pos()).Line
	_ = line
	g := sx.And(sx.App("<=", sx.IntS(lo), r.T), sx.App("<=", r.T, sx.IntS(hi)))
	fr.ver.add(base+"#nooverflow", nil, "every + - * ++ -- on a fixed-width integer stays within its type ("+b.Name()+")", fr.ver.query(st, nil, g))
}

// eventTypes reads the parameter types of the events declared in the package's config.yml (name -> types).
func (e *Engine) eventTypes(pkg *packages.Package) map[string][]string {
	if e.evTypes == nil {
		e.evTypes = map[string]map[string][]string{}
	}
	if m, ok := e.evTypes[pkg.PkgPath]; ok {
		return m
	}
	m := map[string][]string{}
	e.evTypes[pkg.PkgPath] = m
	if len(pkg.GoFiles) == 0 {
		return m
	}
	b, err := os.ReadFile(filepath.Join(filepath.Dir(pkg.GoFiles[0]), "config.yml"))
	if err != nil {
		return m
	}
	in, cur := false, ""
	for _, ln := range strings.Split(string(b), "\n") {
		t := strings.TrimSpace(ln)
		switch {
		case strings.HasPrefix(ln, "events:"):
			in = true
		case in && len(ln) > 0 && ln[0] != ' ' && ln[0] != '-':
			in = false
		case in && strings.HasPrefix(t, "- name:") && strings.HasPrefix(ln, "  - name:"):
			cur = strings.TrimSpace(strings.TrimPrefix(t, "- name:"))
			m[cur] = nil
		case in && cur != "" && strings.HasPrefix(t, "type:") && strings.HasPrefix(ln, "        type:"):
			m[cur] = append(m[cur], strings.TrimSpace(strings.TrimPrefix(t, "type:")))
		}
	}
	return m
}
