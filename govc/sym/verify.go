package sym

import (
	"crypto/sha256"
	"fmt"
	"go/ast"
	"go/token"
	"go/types"
	"os"
	"runtime/debug"
	"sort"
	"strings"

	"golang.org/x/tools/go/packages"

	"govc/smt"
	"govc/spec"
	"govc/sx"
)

type verifier struct {
	reveal         []string
	pkg            *packages.Package
	e              *Engine
	sp             *spec.File
	modular        bool
	obls           map[string]*Obligation
	order          []string
	decls          []string
	quants         []smt.Quant
	pre            *spec.Env
	reqs           []*sx.T
	scoped         []scopedReq // input assumptions granted by single properties: assumed for clauses of these properties only
	curTags        []string    // tags of the clause whose goals are being built
	values         []*sx.T
	names          []string
	args           []Val
	axioms         []*sx.T
	explicitFaults bool
	given          []*sx.T
	onIter         func(st *State) // sweep: called at the end of an arbitrary loop iteration
}

// Obligation is one named proof goal with its per-path queries.
type Obligation struct {
	Name    string
	Tags    []string
	Text    string
	Queries []*smt.Query
	Finding string // name of the known finding whose region this obligation excludes ("" = the full clause)
	Full    string // for an .except obligation: name of the full obligation
	NoExits bool   // canary only: the function had no normal exit at all
}

// ParamInfo describes a parameter of the function under verification for replay.
type ParamInfo struct {
	Name, GoType, Sort, Term string
}

type FuncReport struct {
	File        string // source file of the function
	Line        int
	SrcHash     string // sha256 of the function's source text
	Clauses     int
	Trusted     bool
	Results     []string // Go result types
	Params      []ParamInfo
	Exported    bool
	Recv        bool
	Func        string
	Exits       int
	FaultExits  int
	Obligations []*Obligation
}

func (v *verifier) add(name string, tags []string, text string, q *smt.Query) {
	if v.e.dry > 0 {
		return // dry run of a loop body: nothing is proved there
	}
	o := v.obls[name]
	if o == nil {
		o = &Obligation{Name: name, Tags: tags, Text: text}
		v.obls[name] = o
		v.order = append(v.order, name)
	}
	q.Name = fmt.Sprintf("%s@%d", name, len(o.Queries))
	o.Queries = append(o.Queries, q)
}

func cloneVars(m map[types.Object]Val) map[types.Object]Val {
	n := make(map[types.Object]Val, len(m))
	for k, v := range m {
		n[k] = v
	}
	return n
}

type scopedReq struct {
	tags []string
	t    *sx.T
}

// propertyScoped: a requires clause tagged with property ids ([C01]) is an input assumption that only the quantifier of
// these properties grants; it is assumed for the ensures clauses and invariants of these properties and for nothing else.
func propertyScoped(tags []string) bool {
	if len(tags) == 0 {
		return false
	}
	for _, t := range tags {
		if len(t) < 2 || t[0] != 'C' || t[1] < '0' || t[1] > '9' {
			return false
		}
	}
	return true
}

func (v *verifier) query(st *State, extraHyps []*sx.T, goal *sx.T) *smt.Query {
	hyps := append([]*sx.T{}, st.defs...)
	hyps = append(hyps, st.pc...)
	hyps = append(hyps, st.facts...)
	hyps = append(hyps, v.reqs...)
	for _, r := range v.scoped {
		// only if every property the clause counts for grants the assumption
		all := len(v.curTags) > 0
		for _, c := range v.curTags {
			found := false
			for _, t := range r.tags {
				found = found || t == c
			}
			all = all && found
		}
		if all {
			hyps = append(hyps, r.t)
		}
	}
	hyps = append(hyps, extraHyps...)
	if v.axioms == nil && v.sp != nil {
		env := spec.NewEnv(v.sp, v.e.Structs)
		env.Lists = v.e.Lists
		for _, a := range v.sp.Axioms {
			v.axioms = append(v.axioms, env.Tr(a.Body).T)
		}
		for _, name := range v.reveal {
			d := v.sp.Pures[name]
			if d == nil || !d.Opaque {
				panic("reveal of " + name + ": not an opaque pure function of this module")
			}
			v.axioms = append(v.axioms, env.RevealAxiom(d))
		}
		if v.axioms == nil {
			v.axioms = []*sx.T{}
		}
	}
	hyps = append(hyps, v.axioms...)
	return &smt.Query{Hyps: hyps, Goal: goal, Values: v.values}
}

// finish fills in declarations once all symbols are known.
func (v *verifier) finish() {
	decls, quants := v.e.Prelude(v.sp)
	consts := append([]smt.Var{}, v.e.Consts()...)
	// every per-method call log has a non-negative length
	var logFacts []*sx.T
	var xmKeys []string
	for k := range v.e.extraFn {
		if strings.HasPrefix(k, "xm:") {
			xmKeys = append(xmKeys, strings.TrimPrefix(k, "xm:"))
		}
	}
	sort.Strings(xmKeys)
	for _, b := range xmKeys {
		logFacts = append(logFacts, sx.App(">=", sx.Atom(b), sx.Int(0)))
	}
	for _, name := range v.order {
		for _, q := range v.obls[name].Queries {
			q.Hyps = append(q.Hyps, logFacts...)
			q.Decls = decls
			q.Quants = quants
			q.Consts = consts
		}
	}
}

// envAt builds the specification environment for a state.
func (v *verifier) envAt(st *State, names []string, vals []Val) *spec.Env {
	env := spec.NewEnv(v.sp, v.e.Structs)
	env.Lists = v.e.Lists
	if v.pkg != nil {
		scopes := []*types.Scope{v.pkg.Types.Scope()}
		for _, imp := range v.pkg.Types.Imports() { // constants of imported packages (common.Version ...) by bare name
			scopes = append(scopes, imp.Scope())
		}
		env.Lookup = func(name string) (spec.TV, bool) {
			for _, scope := range scopes {
				if c, ok := scope.Lookup(name).(*types.Const); ok && (scope == scopes[0] || c.Exported()) {
					if cv, ok := constVal(types.TypeAndValue{Type: c.Type(), Value: c.Val()}); ok {
						return cv.TV, true
					}
				}
			}
			return spec.TV{}, false
		}
	}
	for i, n := range names {
		if i < len(vals) && vals[i].T != nil {
			env.Vars[n] = vals[i].TV
		}
	}
	env.Vars["store"] = spec.TV{T: st.store, Ty: spec.Type{K: spec.KStore}}
	nl, xl := st.notifs, st.xcalls
	env.Vars["notifs"] = spec.TV{Ty: spec.Type{K: spec.KLog}, Log: &nl}
	env.Vars["xcalls"] = spec.TV{Ty: spec.Type{K: spec.KLog}, Log: &xl}
	env.Vars["callingScriptHash"] = spec.TV{T: sx.Atom("callingScriptHash"), Ty: spec.Type{K: spec.KBytes}}
	snapshot := st.clone()
	env.XLog = func(method string) *spec.LogVal {
		l := v.e.xlog(snapshot, method)
		return &l
	}
	return env
}

// envFor is the specification environment of the function under verification at state st.
func (v *verifier) envFor(fr *frame, st *State) *spec.Env { return v.envForAt(fr, st, token.NoPos) }

// envForAt resolves local names as Go scoping would at position upto: among several locals of the
// same name the one declared last before upto wins.
func (v *verifier) envForAt(fr *frame, st *State, upto token.Pos) *spec.Env {
	env := v.envAt(st, v.names, v.args)
	best := map[string]token.Pos{}
	for o, val := range st.vars {
		if val.T == nil || val.Iter != nil || o.Name() == "" {
			continue
		}
		if _, isParam := env.Vars[o.Name()]; isParam && best[o.Name()] == 0 {
			// a parameter name means the value passed in; cur(name) is its current value (parameters can be reassigned)
			env.Vars["$cur."+o.Name()] = val.TV
			continue
		}
		if upto != token.NoPos && o.Pos() > upto {
			continue
		}
		if p, seen := best[o.Name()]; !seen || o.Pos() > p {
			best[o.Name()] = o.Pos()
			env.Vars[o.Name()] = val.TV
		}
	}
	// renamed parameters and locals (see locals.go)
	for old, obj := range v.e.renamesFor(fr.fn) {
		if _, has := env.Vars[old]; has {
			continue
		}
		if val, ok := st.vars[obj]; ok && val.T != nil && val.Iter == nil {
			env.Vars[old] = val.TV
		}
	}
	env.Old = v.pre
	return env
}

// RegisterStructs registers the struct (and list-of-struct) sorts of a package so that contracts can name them.
func (e *Engine) RegisterStructs(pkgPath string) {
	pp := e.Pkgs[pkgPath]
	if pp == nil {
		return
	}
	for _, n := range pp.Types.Scope().Names() {
		if tn, ok := pp.Types.Scope().Lookup(n).(*types.TypeName); ok {
			if _, isStruct := tn.Type().Underlying().(*types.Struct); isStruct {
				func() {
					defer func() { recover() }()
					e.listOf(e.typeOf(tn.Type()))
				}()
			}
		}
	}
}

// VerifyFunc generates all obligations of one function under contract.
func (e *Engine) VerifyFunc(pkgPath, key string, modular bool) (rep *FuncReport, err error) {
	defer func() {
		if r := recover(); r != nil {
			err = fmt.Errorf("%s.%s: %v", pkgPath, key, r)
			if os.Getenv("VERIF_TRACE") != "" {
				fmt.Fprintf(os.Stderr, "%v\n%s\n", r, debug.Stack())
			}
		}
	}()
	e.bind()
	pkg := e.Pkgs[pkgPath]
	sp := e.Specs[pkgPath]
	var fn *types.Func
	for f := range e.funcs {
		if e.fpkg[f] == pkg && specKey(f) == key {
			fn = f
		}
	}
	if fn == nil {
		return nil, fmt.Errorf("function %s not found in %s (contract out of date)", key, pkgPath)
	}
	fs := sp.Funcs[key]
	decl := e.funcs[fn]
	var outerObjs []types.Object
	var closureLit *ast.FuncLit
	var closureOuter *ast.FuncDecl
	if fs.Closure {
		// the contract speaks about the function literal that fn returns: its body is verified as a function of its own
		// parameters; the parameters of fn are its free variables
		var lit *ast.FuncLit
		ast.Inspect(decl.Body, func(n ast.Node) bool {
			if r, ok := n.(*ast.ReturnStmt); ok && len(r.Results) >= 1 {
				if l, ok := r.Results[0].(*ast.FuncLit); ok && lit == nil {
					lit = l
				}
			}
			return true
		})
		if lit == nil {
			return nil, fmt.Errorf("%s.%s: no returned function literal (contract out of date)", pkgPath, key)
		}
		_, outerObjs = paramNames(decl, pkg.TypesInfo)
		closureLit, closureOuter = lit, decl
		decl = &ast.FuncDecl{Name: decl.Name, Type: lit.Type, Body: lit.Body}
	}
	if fs.Trusted {
		r := &FuncReport{Func: pkg.Types.Name() + "." + key, Trusted: true, Clauses: len(fs.Clauses)}
		r.File, r.Line, r.SrcHash = e.srcInfo(pkg, decl)
		return r, nil
	}
	for _, pp := range e.Pkgs {
		if e.Specs[pp.PkgPath] == nil {
			continue
		}
		e.RegisterStructs(pp.PkgPath)
	}
	e.consts = nil
	e.fresh = 0
	v := &verifier{e: e, sp: sp, modular: modular, obls: map[string]*Obligation{}, explicitFaults: fs.Nofault, pkg: pkg, reveal: fs.Reveal}
	base := pkg.Types.Name() + "." + key

	names, objs := paramNames(decl, pkg.TypesInfo)
	st := &State{vars: map[types.Object]Val{}, store: sx.Atom("store0"), notifs: spec.LogVal{Base: "notifs0"}, xcalls: spec.LogVal{Base: "xcalls0"}}
	args := make([]Val, len(objs))
	for i, o := range objs {
		ty := e.typeOf(o.Type())
		if ty.K == spec.KUnit {
			args[i] = unit()
			continue
		}
		if decl.Recv != nil && i == 0 {
			// receiver of the package-level token object: use the global if there is exactly one of that type
			found := false
			for g, gv := range e.globals {
				if types.Identical(g.Type(), o.Type()) {
					args[i] = gv
					found = true
				}
			}
			if found {
				continue
			}
		}
		c := sx.Atom("p_" + names[i])
		e.consts = append(e.consts, smt.Var{Name: c.A, Sort: ty.Sort()})
		args[i] = Val{TV: spec.TV{T: c, Ty: ty}}
		v.values = append(v.values, c)
		if ty.K == spec.KNB { // representation invariant of nullable bytes
			v.reqs = append(v.reqs, sx.Implies(sx.App("isnull", c), sx.App("=", sx.App("bv", c), sx.Str(""))))
		}
	}
	// a renamed parameter keeps the name the contract knows (see locals.go)
	for old, obj := range e.renamesFor(fn) {
		for i, o := range objs {
			if o == obj {
				names = append(names, old)
				args = append(args, args[i])
			}
		}
	}
	v.names, v.args = names, args
	v.pre = v.envAt(st, names, args)
	v.reqs = append(v.reqs, sx.App(">=", sx.Atom("notifs0"), sx.Int(0)), sx.App(">=", sx.Atom("xcalls0"), sx.Int(0)))
	for _, c := range fs.Clauses {
		if fs.Closure {
			break // the requires clauses of a closure are its state invariant: read below, once the captured variables are bound
		}
		if c.Kind == "requires" && propertyScoped(c.Tags) {
			v.scoped = append(v.scoped, scopedReq{tags: c.Tags, t: v.pre.Tr(c.E).T})
			continue
		}
		if c.Kind == "requires" {
			t := v.pre.Tr(c.E).T
			v.reqs = append(v.reqs, t)
			// a precondition that is a plain boolean parameter (or its negation) also prunes the branches it excludes
			if t.IsAtom() || (t.Head() == "not" && len(t.L) == 2 && t.L[1].IsAtom()) {
				st.pc = append(st.pc, t)
			}
		}
	}
	if ast.IsExported(fn.Name()) && decl.Recv == nil {
		// package invariants hold on entry of every exported method (induction over call histories)
		for _, inv := range sp.Invs {
			v.reqs = append(v.reqs, v.pre.Tr(inv.Body).T)
		}
		// ... also those another module of the package proves for every exported method (`relies`): read with that
		// module's definitions, in this entry state
		for _, r := range e.Relied[fn.Pkg().Path()] {
			env := *v.pre
			env.File = r.File
			v.reqs = append(v.reqs, env.Tr(r.Inv.Body).T)
		}
	}
	if fn.Name() == "_deploy" && decl.Recv == nil {
		// an update runs on a state the contract's history produced: relied package invariants hold when isUpdate
		for i, n := range names {
			if n == "isUpdate" && i < len(args) && args[i].Ty.K == spec.KBool {
				for _, r := range e.Relied[fn.Pkg().Path()] {
					env := *v.pre
					env.File = r.File
					v.reqs = append(v.reqs, sx.Implies(args[i].T, env.Tr(r.Inv.Body).T))
				}
			}
		}
	}
	if fs.Nofault && fs.Given != nil {
		v.given = []*sx.T{v.pre.Tr(fs.Given).T}
	}
	var exits []Exit
	fr := &frame{fn: fn, pkg: pkg, info: pkg.TypesInfo, exits: &exits, ver: v}
	for i, o := range objs {
		st.vars[o] = args[i]
	}
	e.bindNamedResults(st, decl, pkg.TypesInfo)
	for _, o := range outerObjs { // free variables of a closure: function-typed ones are callable, others symbolic
		if o == nil {
			continue
		}
		ty := e.typeOf(o.Type())
		if ty.K == spec.KUnit {
			st.vars[o] = unit()
			continue
		}
		c := sx.Atom("p_" + o.Name())
		e.consts = append(e.consts, smt.Var{Name: c.A, Sort: ty.Sort()})
		st.vars[o] = Val{TV: spec.TV{T: c, Ty: ty}}
		names = append(names, o.Name()) // contracts of the closure name the outer parameters too
		args = append(args, st.vars[o])
	}
	var capObjs []types.Object
	if closureLit != nil {
		// the local variables of the outer function that the literal captures are its state between calls: unconstrained
		// values of their types on entry (contracts name them like parameters, cur(x) is the value at the exit); a local
		// bound once to a function literal is that literal
		for _, c := range e.capturedLocals(pkg, closureOuter, closureLit) {
			if c.lit != nil {
				u := unit()
				u.Fn = c.lit
				st.vars[c.obj] = u
				continue
			}
			ty := spec.Type{K: spec.KAny}
			func() {
				defer func() { recover() }()
				ty = e.typeOf(c.obj.Type())
			}()
			if ty.K == spec.KUnit {
				st.vars[c.obj] = unit()
				continue
			}
			cn := sx.Atom("p_" + c.obj.Name())
			e.consts = append(e.consts, smt.Var{Name: cn.A, Sort: ty.Sort()})
			if b, ok := c.obj.Type().Underlying().(*types.Basic); ok && ty.K == spec.KInt {
				if lo, hi, ok := intRange(b.Kind()); ok { // a variable of a fixed-width integer type holds a value of that type
					v.reqs = append(v.reqs, sx.App("<=", sx.IntS(lo), cn), sx.App("<=", cn, sx.IntS(hi)))
				}
			}
			val := Val{TV: spec.TV{T: cn, Ty: ty}}
			st.vars[c.obj] = val
			names = append(names, c.obj.Name())
			args = append(args, val)
			capObjs = append(capObjs, c.obj)
		}
		v.names, v.args = names, args
		v.pre = v.envAt(st, names, args)
		// requires clauses of a closure: an invariant of the state it keeps between calls - assumed on entry, re-established
		// at every exit (#closure-keep) and established by the outer function where it returns the literal (#closure-init)
		for _, c := range fs.Clauses {
			if c.Kind == "requires" {
				v.reqs = append(v.reqs, v.pre.Tr(c.E).T)
			}
		}
	}
	var normal []Exit
	fr.onRet = func(st *State, rets []Val) { normal = append(normal, Exit{St: st, Rets: rets}) }
	e.stmts(fr, st, decl.Body.List, func(st *State) { fr.onRet(st, nil) })

	// result names
	resNames := fs.Results
	if len(resNames) == 0 {
		sig := fn.Type().(*types.Signature)
		for i := 0; i < sig.Results().Len(); i++ {
			n := sig.Results().At(i).Name()
			if n == "" {
				n = "result"
				if i > 0 {
					n = fmt.Sprintf("result%d", i)
				}
			}
			resNames = append(resNames, n)
		}
	}
	for _, ex := range normal {
		env := v.envAt(ex.St, names, args)
		for i, n := range resNames {
			if i < len(ex.Rets) {
				env.Vars[n] = ex.Rets[i].TV
				if it := ex.Rets[i].Iter; it != nil {
					// a storage iterator handed to the caller: the snapshot it walks, its prefix, option flags and position
					env.Vars[n+".prefix"] = spec.TV{T: it.Prefix, Ty: spec.Type{K: spec.KBytes}}
					env.Vars[n+".opts"] = spec.TV{T: sx.Int(it.Opts), Ty: spec.Type{K: spec.KInt}}
					env.Vars[n+".store"] = spec.TV{T: it.Store, Ty: spec.Type{K: spec.KStore}}
					env.Vars[n+".pos"] = spec.TV{T: ex.Rets[i].T, Ty: spec.Type{K: spec.KInt}}
				}
			}
		}
		for i, o := range objs { // cur(p): the value a (pointer or reassigned) parameter holds at the exit
			if i < len(names) {
				if val, ok := ex.St.vars[o]; ok && val.T != nil && val.Iter == nil {
					env.Vars["$cur."+names[i]] = val.TV
				}
			}
		}
		for _, o := range capObjs { // captured state of a closure at the exit
			if val, ok := ex.St.vars[o]; ok && val.T != nil && val.Iter == nil {
				env.Vars["$cur."+o.Name()] = val.TV
			}
		}
		env.Old = v.pre
		for _, c := range fs.Clauses {
			if c.Kind != "ensures" {
				continue
			}
			goal := env.Tr(c.E).T
			v.curTags = c.Tags
			for _, g := range smt.SplitGoal(goal) {
				v.add(fmt.Sprintf("%s#ensures%d", base, c.Ord), c.Tags, c.Text, v.query(ex.St, nil, g))
			}
			v.curTags = nil
			if c.Finding != "" {
				// the same clause outside the region of the known finding (region is read in the pre-state)
				notRegion := sx.Not(v.pre.Tr(c.Region).T)
				name := fmt.Sprintf("%s#ensures%d.except.%s", base, c.Ord, c.Finding)
				for _, g := range smt.SplitGoal(goal) {
					v.add(name, c.Tags, "outside region of "+c.Finding+": "+c.Text, v.query(ex.St, []*sx.T{notRegion}, g))
				}
				v.obls[name].Finding = c.Finding
				v.obls[name].Full = fmt.Sprintf("%s#ensures%d", base, c.Ord)
			}
		}
		// cover clauses: a documented success must stay reachable - some normal exit is compatible with the condition
		// (read in the pre-state). Refuted only if every exit is unsatisfiable together with it.
		for _, c := range fs.Clauses {
			if c.Kind == "cover" {
				v.add(fmt.Sprintf("%s#cover%d", base, c.Ord), c.Tags, "cover "+c.Text, v.query(ex.St, []*sx.T{v.pre.Tr(c.E).T}, sx.Bool(false)))
			}
		}
		if fs.Pure {
			g := sx.And(sx.EqT(ex.St.store, sx.Atom("store0")), sx.Bool(!ex.St.dirty && len(ex.St.notifs.Items) == 0 && ex.St.notifs.Base == "notifs0"))
			v.add(base+"#pure", nil, "pure: storage and ghost logs unchanged", v.query(ex.St, nil, g))
		}
		// package invariants on exported functions
		if ast.IsExported(fn.Name()) && decl.Recv == nil {
			for _, inv := range sp.Invs {
				goal := env.Tr(inv.Body).T
				v.curTags = inv.Tags
				for _, g := range smt.SplitGoal(goal) {
					v.add(fmt.Sprintf("%s#inv.%s", base, inv.Name), inv.Tags, inv.Name, v.query(ex.St, nil, g))
				}
				v.curTags = nil
			}
		}
		if closureLit != nil {
			// the state invariant holds again for the values the captured variables have at this exit
			exitArgs := append([]Val{}, args...)
			for i, n := range names {
				for _, o := range capObjs {
					if o.Name() == n {
						if val, ok := ex.St.vars[o]; ok && val.T != nil {
							exitArgs[i] = val
						}
					}
				}
			}
			envExit := v.envAt(ex.St, names, exitArgs)
			for _, c := range fs.Clauses {
				if c.Kind != "requires" {
					continue
				}
				for _, g := range smt.SplitGoal(envExit.Tr(c.E).T) {
					v.add(fmt.Sprintf("%s#closure-keep%d", base, c.Ord), c.Tags, "kept by every call: "+c.Text, v.query(ex.St, nil, g))
				}
			}
		}
		// canary: false must not be provable
		v.add(base+"#canary", nil, "false (must fail)", v.query(ex.St, nil, sx.Bool(false)))
	}
	if closureLit != nil {
		hasReq := false
		for _, c := range fs.Clauses {
			hasReq = hasReq || c.Kind == "requires"
		}
		if hasReq {
			v.order = append(v.order, e.closureInit(v, fn, pkg, closureOuter, closureLit, fs, base, outerObjs)...)
		}
	}
	if len(normal) == 0 {
		v.add(base+"#canary", nil, "false (must fail)", v.query(st, nil, sx.Bool(true)))
		v.obls[base+"#canary"].NoExits = true
	}
	if fs.Nofault {
		for _, ex := range exits {
			if ex.Fault {
				v.add(base+"#nofault", nil, "nofault given "+fs.GivenText+"  (fault site: "+ex.Msg+")", v.query(ex.St, v.given, sx.Bool(false)))
			}
		}
	}
	v.finish()
	rep = &FuncReport{Func: base, Exits: len(normal), FaultExits: len(exits), Exported: ast.IsExported(fn.Name()) && decl.Recv == nil, Recv: decl.Recv != nil}
	rep.File, rep.Line, rep.SrcHash = e.srcInfo(pkg, decl)
	rep.Clauses = len(fs.Clauses)
	for _, l := range fs.Loops {
		rep.Clauses += len(l.Invs)
	}
	for i := 0; i < fn.Type().(*types.Signature).Results().Len(); i++ {
		rep.Results = append(rep.Results, fn.Type().(*types.Signature).Results().At(i).Type().String())
	}
	for i, o := range objs {
		pi := ParamInfo{Name: names[i], GoType: o.Type().String()}
		if args[i].T != nil {
			pi.Sort, pi.Term = args[i].Ty.Sort(), args[i].T.String()
		}
		rep.Params = append(rep.Params, pi)
	}
	for _, n := range v.order {
		rep.Obligations = append(rep.Obligations, v.obls[n])
	}
	return rep, nil
}

// srcInfo returns file, line and SHA-256 of the source text of a function declaration.
func (e *Engine) srcInfo(pkg *packages.Package, decl *ast.FuncDecl) (string, int, string) {
	pos := pkg.Fset.Position(decl.Pos())
	end := pkg.Fset.Position(decl.End())
	b, err := os.ReadFile(pos.Filename)
	if err != nil || end.Offset > len(b) {
		return pos.Filename, pos.Line, ""
	}
	return pos.Filename, pos.Line, fmt.Sprintf("%x", sha256.Sum256(b[pos.Offset:end.Offset]))
}

// applyContract replaces a call by the callee's contract.
func (e *Engine) applyContract(fr *frame, st *State, fn *types.Func, decl *ast.FuncDecl, fs *spec.FuncSpec, args []Val, k func(st *State, rets []Val)) {
	if e.Applied == nil {
		e.Applied = map[string]bool{}
	}
	if p := e.fpkg[fn]; p != nil {
		e.Applied[p.Types.Name()+"."+specKey(fn)] = true
	}
	v := fr.ver
	curOverride := e.curOverride
	e.curOverride = nil
	calleeSp := e.Specs[fn.Pkg().Path()]
	names, _ := paramNames(decl, e.fpkg[fn].TypesInfo)
	cv := &verifier{e: e, sp: calleeSp, pkg: e.fpkg[fn]}
	pre := cv.envAt(st, names, args)
	base := fr.pkg.Types.Name() + "." + specKey(fr.fn)
	for _, c := range fs.Clauses {
		if c.Kind == "requires" {
			goal := pre.Tr(c.E).T
			for _, g := range smt.SplitGoal(goal) {
				v.add(fmt.Sprintf("%s#call.%s.pre%d", base, specKey(fn), c.Ord), c.Tags, c.Text, v.query(st, nil, g))
			}
		}
	}
	if v.explicitFaults && fs.Nofault && fs.Given != nil {
		for _, g := range smt.SplitGoal(pre.Tr(fs.Given).T) {
			v.add(fmt.Sprintf("%s#call.%s.given", base, specKey(fn)), nil, "callee's nofault condition: "+fs.GivenText, v.query(st, v.given, g))
		}
	}
	// havoc
	if !fs.Pure {
		if e.mayWrite(fn, 0) {
			st.store = e.sym("st", "Store")
		}
		if names, known := e.logNames(fn); e.Go64 && known {
			// dialect go64: the callee can append only to the per-callee logs its call graph reaches; the others are framed
			for _, n := range names {
				delete(st.xm, n)
				if st.xgenOf == nil {
					st.xgenOf = map[string]int{}
				}
				st.xgenOf[n] = e.nextGen()
			}
		} else if e.mayLog(fn, 0) { // the ghost logs are framed by the call graph: a callee that cannot log leaves them alone
			st.notifs = spec.LogVal{Base: e.sym("notifs", "Int").A}
			st.xcalls = spec.LogVal{Base: e.sym("xcalls", "Int").A}
			st.facts = append(st.facts, sx.App(">=", sx.Atom(st.notifs.Base), sx.Int(0)), sx.App(">=", sx.Atom(st.xcalls.Base), sx.Int(0)))
			st.xgen = e.nextGen()
			st.xm = map[string]spec.LogVal{}
		}
		st.dirty = true
	}
	sig := fn.Type().(*types.Signature)
	rets := make([]Val, sig.Results().Len())
	resNames := fs.Results
	for i := range rets {
		ty := e.typeOf(sig.Results().At(i).Type())
		rets[i] = Val{TV: spec.TV{T: e.sym("r", ty.Sort()), Ty: ty}}
		if i >= len(resNames) {
			n := "result"
			if i > 0 {
				n = fmt.Sprintf("result%d", i)
			}
			resNames = append(resNames, n)
		}
	}
	if fs.Logged {
		// ghost log of internal calls: the caller's contract can count them and name their results
		name := specKey(fn)
		ev := spec.Event{Name: name}
		for _, a := range args {
			if a.T != nil {
				ev.Args = append(ev.Args, a.T)
				ev.Sorts = append(ev.Sorts, a.Ty.Sort())
			}
		}
		pos := e.xlog(st, name)
		e.xappend(st, name, ev)
		if len(rets) > 0 && rets[0].T != nil {
			fnName := "cres_" + strings.NewReplacer(".", "_", "-", "_").Replace(name)
			e.extraFn["cres:"+fnName] = fmt.Sprintf("(declare-fun %s (Int) Any)", fnName)
			boxed := e.box(rets[0], spec.Type{K: spec.KAny})
			st.facts = append(st.facts, sx.App("=", sx.App(fnName, (&pos).LenT()), boxed))
			if rets[0].Ty.K == spec.KStruct && e.Go64 { // the ghost value of a pointer result is null exactly if the pointer is nil
				spec.DeclareNilPtr(rets[0].Ty.Name)
				st.facts = append(st.facts, sx.App("=", sx.App("=", boxed, sx.Atom("AnyNull")), sx.App("isnilp_"+rets[0].Ty.Name, rets[0].T)))
			}
			if rets[0].Ty.K == spec.KBool { // asbool(cres(...)) names a boolean result
				st.facts = append(st.facts, sx.App("=", e.uf("unbox_Bool", spec.Type{K: spec.KBool}, Val{TV: spec.TV{T: boxed, Ty: spec.Type{K: spec.KAny}}}).T, rets[0].T))
			}
			if rets[0].Ty.K == spec.KInt { // unbox(box(x)) == x for this value
				st.facts = append(st.facts, sx.App("=", e.uf("unbox_Int", spec.Type{K: spec.KInt}, Val{TV: spec.TV{T: boxed, Ty: spec.Type{K: spec.KAny}}}).T, rets[0].T))
			}
			if rets[0].Ty.K == spec.KNB { // the same for a byte-string result (asbytes(cres(...)) names it)
				st.facts = append(st.facts, sx.App("=", e.uf("unbox_NB", spec.Type{K: spec.KNB}, Val{TV: spec.TV{T: boxed, Ty: spec.Type{K: spec.KAny}}}).T, rets[0].T))
			}
		}
		if len(rets) > 1 && rets[1].T != nil { // the second result (usually the error) is cres2("<Func>", i)
			fnName := "cres2_" + strings.NewReplacer(".", "_", "-", "_").Replace(name)
			e.extraFn["cres:"+fnName] = fmt.Sprintf("(declare-fun %s (Int) Any)", fnName)
			st.facts = append(st.facts, sx.App("=", sx.App(fnName, (&pos).LenT()), e.box(rets[1], spec.Type{K: spec.KAny})))
		}
	}
	// postconditions: facts, except equations on the ghost logs, which assign the log
	type logAssign struct {
		cond  spec.Expr
		which string
		rhs   spec.Expr
	}
	var assigns []logAssign
	var facts []spec.Expr
	for _, c := range fs.Clauses {
		if c.Kind != "ensures" {
			continue
		}
		var cond spec.Expr
		body := c.E
		if c.Finding != "" { // a clause with a known finding is assumed only outside the finding's region
			body = &spec.EBinary{Op: "==>", X: &spec.EUnary{Op: "!", X: &spec.EOld{X: c.Region}}, Y: body}
		}
		if b, ok := body.(*spec.EBinary); ok && b.Op == "==>" {
			cond, body = b.X, b.Y
		}
		for _, cj := range conjuncts(body) {
			if b, ok := cj.(*spec.EBinary); ok && b.Op == "==" {
				if id, ok := b.X.(*spec.EIdent); ok && (id.Name == "notifs" || id.Name == "xcalls") {
					assigns = append(assigns, logAssign{cond, id.Name, b.Y})
					continue
				}
			}
			if cond != nil {
				facts = append(facts, &spec.EBinary{Op: "==>", X: cond, Y: cj})
			} else {
				facts = append(facts, cj)
			}
		}
	}
	// a clause `r == E` of a pure callee defines the result: use the term E itself instead of a fresh symbol, so that
	// quantified facts about E (triggers) apply to what the caller holds
	if fs.Pure && len(rets) >= 1 {
		for _, c := range fs.Clauses {
			if c.Kind != "ensures" || c.Finding != "" {
				continue
			}
			for _, cj := range conjuncts(c.E) {
				b, ok := cj.(*spec.EBinary)
				if !ok || b.Op != "==" {
					continue
				}
				id, ok := b.X.(*spec.EIdent)
				if !ok {
					continue
				}
				for i, rn := range resNames {
					if i >= len(rets) || rn != id.Name || mentions(b.Y, rn) {
						continue
					}
					func() {
						defer func() { recover() }() // not translatable in the pre-state: keep the fresh symbol
						tv := pre.Tr(b.Y)
						rt := rets[i].Ty
						switch {
						case tv.Ty.K == rt.K && tv.Ty.Name == rt.Name && tv.T != nil:
							rets[i].TV.T = tv.T
						case tv.Ty.K == spec.KBytes && rt.K == spec.KNB:
							// content is defined, nil-ness stays that of the fresh symbol
							rets[i].TV.T = sx.App("mkNB", sx.App("isnull", rets[i].T), tv.T)
						}
					}()
				}
			}
		}
	}
	mkPost := func(st *State) *spec.Env {
		post := cv.envAt(st, names, args)
		for i, n := range resNames {
			if i < len(rets) {
				post.Vars[n] = rets[i].TV
			}
		}
		for n, tv := range curOverride {
			post.Vars[n] = tv
		}
		post.Old = pre
		return post
	}
	post := mkPost(st)
	for _, f := range facts {
		st.facts = append(st.facts, post.Tr(f).T)
	}
	var apply func(i int, st *State)
	apply = func(i int, st *State) {
		if i == len(assigns) {
			k(st, rets)
			return
		}
		a := assigns[i]
		set := func(st *State) {
			lv := mkPost(st).Tr(a.rhs).Log
			if a.which == "notifs" {
				st.notifs = *lv
			} else {
				st.xcalls = *lv
			}
			apply(i+1, st)
		}
		if a.cond == nil {
			set(st)
			return
		}
		e.branch(st, mkPost(st).Tr(a.cond).T, set, func(st *State) { apply(i+1, st) })
	}
	apply(0, st)
}

// mentions reports whether a specification expression refers to the identifier name.
func mentions(x spec.Expr, name string) bool {
	found := false
	var walk func(e spec.Expr)
	walk = func(e spec.Expr) {
		if found || e == nil {
			return
		}
		switch t := e.(type) {
		case *spec.EIdent:
			if t.Name == name {
				found = true
			}
		case *spec.EUnary:
			walk(t.X)
		case *spec.EBinary:
			walk(t.X)
			walk(t.Y)
		case *spec.ECond:
			walk(t.C)
			walk(t.A)
			walk(t.B)
		case *spec.ECall:
			for _, a := range t.Args {
				walk(a)
			}
		case *spec.EMethod:
			walk(t.X)
			for _, a := range t.Args {
				walk(a)
			}
		case *spec.EField:
			walk(t.X)
		case *spec.EIndex:
			walk(t.X)
			walk(t.I)
		case *spec.ESlice:
			walk(t.X)
			walk(t.Lo)
			walk(t.Hi)
		case *spec.EOld:
			walk(t.X)
		case *spec.EStruct:
			for _, a := range t.Elems {
				walk(a)
			}
		case *spec.EList:
			for _, a := range t.Elems {
				walk(a)
			}
		case *spec.EQuant:
			walk(t.Body)
		}
	}
	walk(x)
	return found
}

func conjuncts(x spec.Expr) []spec.Expr {
	if b, ok := x.(*spec.EBinary); ok && b.Op == "&&" {
		return append(conjuncts(b.X), conjuncts(b.Y)...)
	}
	return []spec.Expr{x}
}

// LoadGlobals evaluates package-level variable initialisers and init functions.
func (e *Engine) LoadGlobals(pkgPath string) (err error) {
	defer func() {
		if r := recover(); r != nil {
			err = fmt.Errorf("globals of %s: %v", pkgPath, r)
		}
	}()
	pkg := e.Pkgs[pkgPath]
	var exits []Exit
	fr := &frame{pkg: pkg, info: pkg.TypesInfo, exits: &exits}
	st := &State{vars: map[types.Object]Val{}, store: sx.Atom("store0")}
	for _, f := range pkg.Syntax {
		for _, d := range f.Decls {
			gd, ok := d.(*ast.GenDecl)
			if !ok {
				continue
			}
			for _, s := range gd.Specs {
				vs, ok := s.(*ast.ValueSpec)
				if !ok || len(vs.Values) == 0 {
					if ok {
						for _, n := range vs.Names {
							if o, isVar := pkg.TypesInfo.Defs[n].(*types.Var); isVar {
								func() {
									defer func() { recover() }()
									ty := e.typeOf(o.Type())
									e.globals[o] = Val{TV: spec.TV{T: e.zero(ty), Ty: ty}}
								}()
							}
						}
					}
					continue
				}
				for i, n := range vs.Names {
					o, isVar := pkg.TypesInfo.Defs[n].(*types.Var)
					if !isVar || i >= len(vs.Values) {
						continue
					}
					func() {
						defer func() { recover() }() // initialisers outside the subset are skipped
						e.eval(fr, st, vs.Values[i], func(_ *State, v Val) { e.globals[o] = v })
					}()
				}
			}
		}
	}
	for fn, decl := range e.funcs {
		if e.fpkg[fn] == pkg && fn.Name() == "init" && decl.Recv == nil {
			fr.fn = fn
			fr.onRet = func(*State, []Val) {}
			e.stmts(fr, st, decl.Body.List, func(*State) {})
		}
	}
	return nil
}

// SpecFuncs lists the functions under contract of a package in stable order.
func (e *Engine) SpecFuncs(pkgPath string) []string {
	var out []string
	for k, f := range e.Specs[pkgPath].Funcs {
		if f.Imported || f.Inline {
			continue
		}
		out = append(out, k)
	}
	sort.Strings(out)
	return out
}

// ExtractSpec pulls the /*@ ... @*/ blocks out of a Go source text.
func ExtractSpec(src string) string {
	var b strings.Builder
	for {
		i := strings.Index(src, "/*@")
		if i < 0 {
			break
		}
		j := strings.Index(src[i:], "@*/")
		if j < 0 {
			break
		}
		b.WriteString(src[i+3 : i+j])
		b.WriteByte('\n')
		src = src[i+j+3:]
	}
	return b.String()
}

// SurveyFunc symbolically executes one function without contracts (everything inlined) and
// reports how it ends; used to measure construct coverage and for the authorisation sweep.
func (e *Engine) SurveyFunc(pkgPath string, fn *types.Func) (normal, faults int, err error) {
	defer func() {
		if r := recover(); r != nil {
			err = fmt.Errorf("%v", r)
			if os.Getenv("GOVC_TRACE") == fn.Name() {
				debug.PrintStack()
			}
		}
	}()
	pkg := e.Pkgs[pkgPath]
	decl := e.funcs[fn]
	e.consts = nil
	e.fresh = 0
	sp := e.Specs[pkgPath]
	if sp == nil {
		sp = &spec.File{Pures: map[string]*spec.PureDecl{}, Folds: map[string]*spec.FoldDecl{}, Funcs: map[string]*spec.FuncSpec{}}
	}
	v := &verifier{e: e, sp: sp, modular: false, obls: map[string]*Obligation{}}
	names, objs := paramNames(decl, pkg.TypesInfo)
	st := &State{vars: map[types.Object]Val{}, store: sx.Atom("store0"), notifs: spec.LogVal{Base: "notifs0"}, xcalls: spec.LogVal{Base: "xcalls0"}}
	for i, o := range objs {
		ty := e.typeOf(o.Type())
		if ty.K == spec.KUnit {
			st.vars[o] = unit()
			continue
		}
		st.vars[o] = Val{TV: spec.TV{T: sx.Atom("p_" + names[i]), Ty: ty}}
	}
	v.names = names
	var exits []Exit
	fr := &frame{fn: fn, pkg: pkg, info: pkg.TypesInfo, exits: &exits, ver: v}
	fr.onRet = func(st *State, rets []Val) { normal++ }
	e.stmts(fr, st, decl.Body.List, func(st *State) { normal++ })
	return normal, len(exits), nil
}

// ExportedFuncs lists the exported package-level functions of a package.
func (e *Engine) ExportedFuncs(pkgPath string) []*types.Func {
	var out []*types.Func
	for fn, decl := range e.funcs {
		if e.fpkg[fn].PkgPath == pkgPath && decl.Recv == nil && (ast.IsExported(fn.Name()) || fn.Name() == "_deploy") {
			out = append(out, fn)
		}
	}
	sort.Slice(out, func(i, j int) bool { return out[i].Name() < out[j].Name() })
	return out
}

// SweepExit is a normal exit of an exported method seen by the authorisation sweep.
type SweepExit struct {
	Dirty     bool
	Witnesses []*sx.T // W(...) atoms occurring on the path
	Query     *smt.Query
}

// SweepFunc runs the zero-annotation authorisation sweep on one exported function: every normal
// exit that changed state must have passed at least one witness check (first level), which the
// caller then compares with the documented requirement (second level).
func (e *Engine) SweepFunc(pkgPath string, fn *types.Func, req func(params map[string]*sx.T) *sx.T) (exits []SweepExit, err error) {
	defer func() {
		if r := recover(); r != nil {
			err = fmt.Errorf("%v", r)
		}
	}()
	pkg := e.Pkgs[pkgPath]
	decl := e.funcs[fn]
	e.consts = nil
	e.fresh = 0
	sp := &spec.File{Pures: map[string]*spec.PureDecl{}, Folds: map[string]*spec.FoldDecl{}, Funcs: map[string]*spec.FuncSpec{}}
	v := &verifier{e: e, sp: sp, obls: map[string]*Obligation{}}
	names, objs := paramNames(decl, pkg.TypesInfo)
	st := &State{vars: map[types.Object]Val{}, store: sx.Atom("store0"), notifs: spec.LogVal{Base: "notifs0"}, xcalls: spec.LogVal{Base: "xcalls0"}}
	for i, o := range objs {
		ty := e.typeOf(o.Type())
		if ty.K == spec.KUnit {
			st.vars[o] = unit()
			continue
		}
		c := sx.Atom("p_" + names[i])
		e.consts = append(e.consts, smt.Var{Name: c.A, Sort: ty.Sort()})
		st.vars[o] = Val{TV: spec.TV{T: c, Ty: ty}}
	}
	v.names = names
	params := map[string]*sx.T{}
	for i, o := range objs {
		if st.vars[o].T != nil {
			params[names[i]] = st.vars[o].T
		}
	}
	var reqT *sx.T
	if req != nil {
		reqT = req(params)
	}
	var faults []Exit
	fr := &frame{fn: fn, pkg: pkg, info: pkg.TypesInfo, exits: &faults, ver: v}
	record := func(st *State) {
		ex := SweepExit{Dirty: st.dirty}
		seen := map[string]bool{}
		collect := func(ts []*sx.T) {
			for _, t := range ts {
				sx.Walk(t, func(s *sx.T) bool {
					if s.Head() == "W" && !seen[s.String()] {
						seen[s.String()] = true
						ex.Witnesses = append(ex.Witnesses, s)
					}
					return true
				})
			}
		}
		collect(st.pc)
		collect(st.facts)
		collect(st.defs)
		if st.dirty && reqT != nil {
			anyW := sx.Or(ex.Witnesses...)
			ex.Query = v.query(st, nil, sx.Subst(reqT, map[string]*sx.T{"$anyW": anyW}))
		} else if st.dirty && len(ex.Witnesses) > 0 {
			ex.Query = v.query(st, nil, sx.Or(ex.Witnesses...))
		}
		exits = append(exits, ex)
	}
	fr.onRet = func(st *State, rets []Val) { record(st) }
	e.stmts(fr, st, decl.Body.List, func(st *State) { record(st) })
	decls, quants := e.Prelude(sp)
	for i := range exits {
		if q := exits[i].Query; q != nil {
			q.Decls, q.Quants, q.Consts = decls, quants, append([]smt.Var{}, e.consts...)
			q.Name = fmt.Sprintf("%s.%s#witness@%d", pkg.Types.Name(), fn.Name(), i)
		}
	}
	return exits, nil
}

// VerifyLemmas turns the lemma declarations of a contract file into obligations (no code involved).
func (e *Engine) VerifyLemmas(pkgPath string) *FuncReport {
	e.bind()
	sp := e.Specs[pkgPath]
	e.consts = nil
	e.fresh = 0
	v := &verifier{e: e, sp: sp, obls: map[string]*Obligation{}}
	st := &State{vars: map[types.Object]Val{}, store: sx.Atom("store0")}
	env := spec.NewEnv(sp, e.Structs)
	env.Lists = e.Lists
	for _, l := range sp.Lemmas {
		// each lemma sees the module's axioms plus the definitions it reveals
		v.axioms = nil
		v.reveal = l.Reveal
		var using []*sx.T
		for _, u := range l.Using {
			found := false
			for _, prev := range sp.Lemmas {
				if prev == l {
					break
				}
				if prev.Name == u && prev.Finding == "" {
					using = append(using, env.Tr(prev.Body).T)
					found = true
				}
			}
			if !found {
				panic("lemma " + l.Name + " uses " + u + ", which is not an earlier lemma of this module")
			}
		}
		text := l.Name
		if l.Text != "" {
			text = l.Name + ": " + l.Text
		}
		v.add("lemma."+l.Name, l.Tags, text, v.query(st, using, env.Tr(l.Body).T))
		if l.Finding != "" {
			body := l.Body
			if q, ok := body.(*spec.EQuant); ok && q.Forall {
				body = &spec.EQuant{Forall: true, Vars: q.Vars, Triggers: q.Triggers, Body: &spec.EBinary{Op: "==>", X: &spec.EUnary{Op: "!", X: l.Region}, Y: q.Body}}
			} else {
				body = &spec.EBinary{Op: "==>", X: &spec.EUnary{Op: "!", X: l.Region}, Y: body}
			}
			name := "lemma." + l.Name + ".except." + l.Finding
			v.add(name, l.Tags, "outside region of "+l.Finding+": "+text, v.query(st, nil, env.Tr(body).T))
			v.obls[name].Finding = l.Finding
			v.obls[name].Full = "lemma." + l.Name
		}
	}
	v.finish()
	rep := &FuncReport{Func: "lemmas of " + pkgPath}
	for _, n := range v.order {
		rep.Obligations = append(rep.Obligations, v.obls[n])
	}
	return rep
}

// ConcreteCell is one storage cell of a replayed execution.
type ConcreteCell struct {
	Key    string // raw bytes
	Absent bool
	Raw    string  // raw stored bytes
	Struct string  // struct sort if the cell was read through std.Deserialize
	Fields []*sx.T // field values when Struct != ""
}

// EvalClause evaluates one ensures clause of a function contract on a concrete observed execution:
// it returns a query whose goal is the clause; `unsat` means the clause held on this run.
func (e *Engine) EvalClause(pkgPath, key, clauseText string, params map[string]spec.TV, results []spec.TV, pre, post []ConcreteCell, notifsAppended []spec.Event) (*smt.Query, error) {
	sp := e.Specs[pkgPath]
	fs := sp.Funcs[key]
	if fs == nil {
		return nil, fmt.Errorf("no contract for %s", key)
	}
	var clause *spec.Clause
	for i := range fs.Clauses {
		if fs.Clauses[i].Text == clauseText || "ensures "+fs.Clauses[i].Text == clauseText || strings.HasSuffix(clauseText, fs.Clauses[i].Text) {
			clause = &fs.Clauses[i]
		}
	}
	if clause == nil {
		return nil, fmt.Errorf("clause not found: %s", clauseText)
	}
	e.consts = nil
	var hyps []*sx.T
	mkStore := func(cells []ConcreteCell) *sx.T {
		t := sx.MustParse1("((as const (Array String Opt)) None)")
		for _, c := range cells {
			if c.Absent {
				continue
			}
			v := sx.Str(c.Raw)
			t = sx.App("store", t, sx.Str(c.Key), sx.App("Some", v))
			if c.Struct != "" {
				hyps = append(hyps, sx.App("=", sx.App("deser_"+c.Struct, v), sx.App("mk"+c.Struct, c.Fields...)))
			}
		}
		return t
	}
	mkEnv := func(store *sx.T, log spec.LogVal) *spec.Env {
		env := spec.NewEnv(sp, e.Structs)
		env.Lists = e.Lists
		for n, v := range params {
			env.Vars[n] = v
		}
		env.Vars["store"] = spec.TV{T: store, Ty: spec.Type{K: spec.KStore}}
		l := log
		env.Vars["notifs"] = spec.TV{Ty: spec.Type{K: spec.KLog}, Log: &l}
		env.Vars["callingScriptHash"] = spec.TV{T: sx.Atom("callingScriptHash"), Ty: spec.Type{K: spec.KBytes}}
		return env
	}
	preEnv := mkEnv(mkStore(pre), spec.LogVal{Base: "notifs0"})
	postEnv := mkEnv(mkStore(post), spec.LogVal{Base: "notifs0", Items: notifsAppended})
	postEnv.Old = preEnv
	names := fs.Results
	for i, r := range results {
		n := "result"
		if i < len(names) {
			n = names[i]
		}
		postEnv.Vars[n] = r
	}
	goal := postEnv.Tr(clause.E).T
	decls, quants := e.Prelude(sp)
	return &smt.Query{Name: "replay-eval", Decls: decls, Quants: quants, Hyps: hyps, Goal: goal}, nil
}


type capturedLocal struct {
	obj types.Object
	lit *ast.FuncLit
}

// capturedLocals lists, in declaration order, the local variables of outer (declared outside lit) that lit uses. A variable
// that is defined once by `x := func...` and never assigned again comes with that literal.
func (e *Engine) capturedLocals(pkg *packages.Package, outer *ast.FuncDecl, lit *ast.FuncLit) []capturedLocal {
	info := pkg.TypesInfo
	used := map[types.Object]bool{}
	ast.Inspect(lit, func(n ast.Node) bool {
		if id, ok := n.(*ast.Ident); ok {
			if o, ok := info.Uses[id].(*types.Var); ok && !o.IsField() {
				used[o] = true
			}
		}
		return true
	})
	var out []capturedLocal
	seen := map[types.Object]bool{}
	lits := map[types.Object]*ast.FuncLit{}
	assigns := map[types.Object]int{}
	ast.Inspect(outer.Body, func(n ast.Node) bool {
		if as, ok := n.(*ast.AssignStmt); ok {
			for i, l := range as.Lhs {
				id, ok := l.(*ast.Ident)
				if !ok {
					continue
				}
				o := info.Defs[id]
				if o == nil {
					o = info.Uses[id]
				}
				if o == nil {
					continue
				}
				assigns[o]++
				if len(as.Lhs) == len(as.Rhs) {
					if fl, ok := as.Rhs[i].(*ast.FuncLit); ok && as.Tok == token.DEFINE {
						lits[o] = fl
					}
				}
			}
		}
		return true
	})
	ast.Inspect(outer.Body, func(n ast.Node) bool {
		if n == ast.Node(lit) {
			return false
		}
		id, ok := n.(*ast.Ident)
		if !ok {
			return true
		}
		o, ok := info.Defs[id].(*types.Var)
		if !ok || o.IsField() || !used[o] || seen[o] {
			return true
		}
		seen[o] = true
		c := capturedLocal{obj: o}
		if fl := lits[o]; fl != nil && assigns[o] == 1 {
			c.lit = fl
		}
		out = append(out, c)
		return true
	})
	return out
}


// logNames (dialect go64) lists the per-callee ghost logs a function can append to, by its call graph: library calls are
// logged under <package>.<Type>.<Func>, calls of function-typed variables under the variable's name, functions under a
// `logged` contract under their own name. known is false if the call graph cannot be followed (then every log is havocked).
func (e *Engine) logNames(fn *types.Func) (names []string, known bool) {
	set := map[string]bool{}
	seen := map[*types.Func]bool{}
	ok := true
	var walk func(f *types.Func, depth int)
	walk = func(f *types.Func, depth int) {
		if seen[f] || !ok {
			return
		}
		seen[f] = true
		if depth > 20 || f.Pkg() == nil {
			ok = false
			return
		}
		if fs := e.specOf(f); fs != nil {
			if fs.Logged && depth > 0 { // (the event of the call being replaced is appended by applyContract itself)
				set[specKey(f)] = true
			}
			if fs.Trusted && fs.Pure {
				return
			}
		}
		decl := e.funcs[f]
		if decl == nil {
			set[f.Pkg().Name()+"."+specKey(f)] = true
			return
		}
		info := e.fpkg[f].TypesInfo
		ast.Inspect(decl.Body, func(x ast.Node) bool {
			c, isCall := x.(*ast.CallExpr)
			if !isCall {
				return ok
			}
			if tv, isT := info.Types[c.Fun]; isT && tv.IsType() {
				return ok
			}
			switch o := calleeOf(info, c).(type) {
			case *types.Func:
				if o == fn && depth >= 0 {
					if fs := e.specOf(fn); fs != nil && fs.Logged {
						set[specKey(fn)] = true // recursion
					}
				}
				walk(o, depth+1)
			case *types.Var:
				set[o.Name()] = true
			case *types.Builtin, nil:
				if o == nil {
					if _, lit := c.Fun.(*ast.FuncLit); !lit {
						ok = false // a call the call graph cannot name
					}
				}
			}
			return ok
		})
	}
	walk(fn, 0)
	if !ok {
		return nil, false
	}
	for n := range set {
		names = append(names, n)
	}
	sort.Strings(names)
	return names, true
}


// closureInit runs the outer function up to the point where it returns the literal and generates the obligations that the
// closure's state invariant (its requires clauses) holds there, for the values the captured variables have at that point.
func (e *Engine) closureInit(v *verifier, fn *types.Func, pkg *packages.Package, outer *ast.FuncDecl, lit *ast.FuncLit, fs *spec.FuncSpec, base string, outerObjs []types.Object) []string {
	v2 := &verifier{e: e, sp: v.sp, modular: v.modular, obls: v.obls, pkg: pkg, reveal: v.reveal, values: v.values}
	st := &State{vars: map[types.Object]Val{}, store: sx.Atom("store0"), notifs: spec.LogVal{Base: "notifs0"}, xcalls: spec.LogVal{Base: "xcalls0"}}
	var names []string
	var args []Val
	for _, o := range outerObjs {
		if o == nil {
			continue
		}
		ty := e.typeOf(o.Type())
		if ty.K == spec.KUnit {
			st.vars[o] = unit()
			continue
		}
		st.vars[o] = Val{TV: spec.TV{T: sx.Atom("p_" + o.Name()), Ty: ty}} // the same symbols as in the closure's own run
		names = append(names, o.Name())
		args = append(args, st.vars[o])
	}
	v2.names, v2.args = names, args
	v2.pre = v2.envAt(st, names, args)
	v2.reqs = append(v2.reqs, sx.App(">=", sx.Atom("notifs0"), sx.Int(0)), sx.App(">=", sx.Atom("xcalls0"), sx.Int(0)))
	captured := e.capturedLocals(pkg, outer, lit)
	var exits []Exit
	fr := &frame{fn: fn, pkg: pkg, info: pkg.TypesInfo, exits: &exits, ver: v2}
	n := 0
	fr.onRet = func(st *State, rets []Val) {
		if len(rets) == 0 || rets[0].Fn != lit {
			return
		}
		n++
		nm := append([]string{}, names...)
		ag := append([]Val{}, args...)
		for _, c := range captured {
			if val, ok := st.vars[c.obj]; ok && val.T != nil && c.lit == nil {
				nm = append(nm, c.obj.Name())
				ag = append(ag, val)
			}
		}
		env := v2.envAt(st, nm, ag)
		for _, c := range fs.Clauses {
			if c.Kind != "requires" {
				continue
			}
			for _, g := range smt.SplitGoal(env.Tr(c.E).T) {
				v2.add(fmt.Sprintf("%s#closure-init%d", base, c.Ord), c.Tags, "established where the literal is returned: "+c.Text, v2.query(st, nil, g))
			}
		}
	}
	e.stmts(fr, st, outer.Body.List, func(st *State) {})
	if n == 0 {
		panic("the outer function never returns the literal on a path the executor follows")
	}
	return v2.order
}


// bindNamedResults: named results are variables holding the zero value of their type on entry.
func (e *Engine) bindNamedResults(st *State, decl *ast.FuncDecl, info *types.Info) {
	if decl.Type.Results == nil {
		return
	}
	for _, f := range decl.Type.Results.List {
		for _, n := range f.Names {
			o := info.Defs[n]
			if o == nil || n.Name == "_" {
				continue
			}
			func() {
				defer func() { recover() }()
				ty := e.typeOf(o.Type())
				if ty.K == spec.KUnit {
					st.vars[o] = unit()
					return
				}
				st.vars[o] = Val{TV: spec.TV{T: e.zeroGo(o.Type()), Ty: ty}}
			}()
		}
	}
}
