package sym

// Alias-mutation scan. NeoVM structs, arrays, maps and byte buffers are references: `q := p; q.A = 1` changes p.A.
// The executor models compound values functionally, which is valid only if no compound value is mutated while
// another live name refers to it. This file checks that syntactically (conservatively) for every function of the
// packages loaded for a check; a function that breaks the rule makes the model invalid for its package, and the
// check reports it (obligation model:<pkg>#no-alias-mutation).

import (
	"fmt"
	"go/ast"
	"go/token"
	"go/types"
	"sort"
	"strings"

	"golang.org/x/tools/go/packages"
)

// AliasFinding is one place where the functional model of compound values is not valid.
type AliasFinding struct {
	Pkg  string // package name
	Func string
	Pos  string
	What string
}

// benignAlias lists the functions whose aliasing was inspected by hand and is harmless under the functional model
// (DESIGN.md 2.3): the aliased name is dead or replaced before the mutation becomes observable.
var benignAlias = map[string]string{
	"common.Vote":  "voters := cnd.Voters; voters = append(voters, from): cnd is replaced by a fresh Ballot built from voters before any further use",
	"nns.Transfer": "from := ns.Owner; ns.Owner = to: a field is replaced, the byte string the other name holds is immutable",
	"nns.SetAdmin": "oldAdm := ns.Admin; ns.Admin = admin: a field is replaced, the byte string the other name holds is immutable",
}

const globalRoot = "<package-level variable>"

type aliasScanner struct {
	pkgs     []*packages.Package
	decls    map[*types.Func]*ast.FuncDecl
	fpkg     map[*types.Func]*packages.Package
	retGlob  map[*types.Func]bool
	retParam map[*types.Func]map[int]bool
	mutParam map[*types.Func]map[int]bool
}

func isRefType(t types.Type) bool {
	if t == nil {
		return false
	}
	switch u := t.Underlying().(type) {
	case *types.Struct, *types.Map:
		return true
	case *types.Slice:
		return true // byte buffers are mutable by index assignment too
	case *types.Pointer:
		return true
	case *types.Basic:
		_ = u
		return false
	}
	return false
}

func isByteBuf(t types.Type) bool {
	if s, ok := t.Underlying().(*types.Slice); ok {
		if b, ok := s.Elem().Underlying().(*types.Basic); ok && (b.Kind() == types.Byte || b.Kind() == types.Uint8) {
			return true
		}
	}
	return false
}

// rootIdent returns the identifier at the root of a selector / index / slice / paren / star chain.
func rootIdent(e ast.Expr) *ast.Ident {
	for {
		switch x := e.(type) {
		case *ast.Ident:
			return x
		case *ast.SelectorExpr:
			// package-qualified identifier: pkg.Var
			if id, ok := x.X.(*ast.Ident); ok {
				_ = id
			}
			e = x.X
		case *ast.IndexExpr:
			e = x.X
		case *ast.ParenExpr:
			e = x.X
		case *ast.StarExpr:
			e = x.X
		case *ast.SliceExpr:
			e = x.X
		case *ast.TypeAssertExpr:
			e = x.X
		default:
			return nil
		}
	}
}

func isPkgLevelVar(o types.Object) bool {
	v, ok := o.(*types.Var)
	if !ok || v.Pkg() == nil || v.IsField() {
		return false
	}
	return v.Parent() == v.Pkg().Scope()
}

// AliasScan scans every function of the given packages.
func AliasScan(pkgs []*packages.Package) []AliasFinding {
	s := &aliasScanner{pkgs: pkgs, decls: map[*types.Func]*ast.FuncDecl{}, fpkg: map[*types.Func]*packages.Package{},
		retGlob: map[*types.Func]bool{}, retParam: map[*types.Func]map[int]bool{}, mutParam: map[*types.Func]map[int]bool{}}
	for _, p := range pkgs {
		if !strings.Contains(p.PkgPath, "neofs-contract/contracts/") && !strings.HasSuffix(p.PkgPath, "neofs-contract/common") {
			continue
		}
		for _, f := range p.Syntax {
			for _, d := range f.Decls {
				fd, ok := d.(*ast.FuncDecl)
				if !ok || fd.Body == nil {
					continue
				}
				if fn, ok := p.TypesInfo.Defs[fd.Name].(*types.Func); ok {
					s.decls[fn] = fd
					s.fpkg[fn] = p
				}
			}
		}
	}
	// summaries to a fixpoint
	for round := 0; round < 8; round++ {
		changed := false
		for fn := range s.decls {
			if s.summarise(fn) {
				changed = true
			}
		}
		if !changed {
			break
		}
	}
	var out []AliasFinding
	for fn := range s.decls {
		out = append(out, s.check(fn)...)
	}
	sort.Slice(out, func(i, j int) bool {
		if out[i].Pkg != out[j].Pkg {
			return out[i].Pkg < out[j].Pkg
		}
		if out[i].Func != out[j].Func {
			return out[i].Func < out[j].Func
		}
		return out[i].Pos < out[j].Pos
	})
	return out
}

func (s *aliasScanner) params(fn *types.Func) []types.Object {
	fd := s.decls[fn]
	info := s.fpkg[fn].TypesInfo
	var out []types.Object
	add := func(fl *ast.FieldList) {
		if fl == nil {
			return
		}
		for _, f := range fl.List {
			if len(f.Names) == 0 {
				out = append(out, nil)
			}
			for _, n := range f.Names {
				out = append(out, info.Defs[n])
			}
		}
	}
	add(fd.Recv)
	add(fd.Type.Params)
	return out
}

type aliasFacts struct {
	edges map[types.Object]map[string]token.Pos // local -> root name ("v:<ptr>" or globalRoot) -> position of the aliasing assignment
	objOf map[string]types.Object
}

func key(o types.Object) string { return fmt.Sprintf("v:%p", o) }

// rootsOf returns the names a compound expression may alias: variables (by key) and globalRoot.
func (s *aliasScanner) rootsOf(info *types.Info, e ast.Expr, af *aliasFacts) map[string]bool {
	out := map[string]bool{}
	if e == nil {
		return out
	}
	tv, ok := info.Types[e]
	if ok && !isRefType(tv.Type) {
		return out
	}
	switch x := e.(type) {
	case *ast.ParenExpr:
		return s.rootsOf(info, x.X, af)
	case *ast.TypeAssertExpr:
		return s.rootsOf(info, x.X, af)
	case *ast.CompositeLit, *ast.BasicLit, *ast.FuncLit:
		return out
	case *ast.UnaryExpr:
		if x.Op == token.AND {
			return s.rootsOf(info, x.X, af)
		}
		return out
	case *ast.CallExpr:
		// conversion T(x): same object
		if ftv, ok := info.Types[x.Fun]; ok && ftv.IsType() && len(x.Args) == 1 {
			if isByteBuf(ftv.Type) {
				if atv, ok := info.Types[x.Args[0]]; ok {
					if b, ok := atv.Type.Underlying().(*types.Basic); ok && b.Info()&types.IsString != 0 {
						return out // []byte(string) converts to a fresh buffer
					}
				}
			}
			return s.rootsOf(info, x.Args[0], af)
		}
		if id, ok := x.Fun.(*ast.Ident); ok {
			if _, isBuiltin := info.Uses[id].(*types.Builtin); isBuiltin {
				if id.Name == "append" && len(x.Args) > 0 {
					if atv, ok := info.Types[x.Args[0]]; ok && !isByteBuf(atv.Type) {
						return s.rootsOf(info, x.Args[0], af) // APPEND works in place on arrays
					}
				}
				return out
			}
		}
		if f, ok := calleeOf(info, x).(*types.Func); ok {
			if s.retGlob[f] {
				out[globalRoot] = true
			}
			args := x.Args
			off := 0
			if sel, ok := x.Fun.(*ast.SelectorExpr); ok && f.Type().(*types.Signature).Recv() != nil {
				args = append([]ast.Expr{sel.X}, args...)
			}
			_ = off
			for i := range s.retParam[f] {
				if i < len(args) {
					for r := range s.rootsOf(info, args[i], af) {
						out[r] = true
					}
				}
			}
		}
		return out
	}
	id := rootIdent(e)
	if id == nil {
		return out
	}
	o := info.Uses[id]
	if o == nil {
		o = info.Defs[id]
	}
	if o == nil {
		return out
	}
	if _, isPkg := o.(*types.PkgName); isPkg {
		// pkg.Var
		if sel, ok := e.(*ast.SelectorExpr); ok {
			if isPkgLevelVar(info.Uses[sel.Sel]) {
				out[globalRoot] = true
			}
		}
		return out
	}
	if isPkgLevelVar(o) {
		out[globalRoot] = true
		return out
	}
	if _, ok := o.(*types.Var); ok {
		out[key(o)] = true
		if af != nil {
			af.objOf[key(o)] = o
			for r := range af.edges[o] {
				out[r] = true
			}
		}
	}
	return out
}

// collect gathers the alias edges of a function (flow-insensitively, closed transitively).
func (s *aliasScanner) collect(fn *types.Func) *aliasFacts {
	fd := s.decls[fn]
	info := s.fpkg[fn].TypesInfo
	af := &aliasFacts{edges: map[types.Object]map[string]token.Pos{}, objOf: map[string]types.Object{}}
	addEdge := func(lhs ast.Expr, rhs ast.Expr, pos token.Pos) bool {
		id, ok := lhs.(*ast.Ident)
		if !ok || id.Name == "_" {
			return false
		}
		o := info.Defs[id]
		if o == nil {
			o = info.Uses[id]
		}
		if o == nil || !isRefType(o.Type()) || isPkgLevelVar(o) {
			return false
		}
		changed := false
		for r := range s.rootsOf(info, rhs, af) {
			if r == key(o) {
				continue
			}
			if af.edges[o] == nil {
				af.edges[o] = map[string]token.Pos{}
			}
			if _, has := af.edges[o][r]; !has {
				af.edges[o][r] = pos
				changed = true
			}
		}
		af.objOf[key(o)] = o
		return changed
	}
	for round := 0; round < 6; round++ {
		changed := false
		ast.Inspect(fd.Body, func(n ast.Node) bool {
			switch x := n.(type) {
			case *ast.AssignStmt:
				if len(x.Lhs) == len(x.Rhs) {
					for i := range x.Lhs {
						if addEdge(x.Lhs[i], x.Rhs[i], x.Pos()) {
							changed = true
						}
					}
				}
			case *ast.ValueSpec:
				if len(x.Names) == len(x.Values) {
					for i := range x.Names {
						if addEdge(x.Names[i], x.Values[i], x.Pos()) {
							changed = true
						}
					}
				}
			case *ast.RangeStmt:
				// for _, v := range list: v refers to the element object
				if x.Value != nil {
					if addEdge(x.Value, x.X, x.Pos()) {
						changed = true
					}
				}
			}
			return true
		})
		if !changed {
			break
		}
	}
	return af
}

type mutation struct {
	root types.Object // variable at the root of the mutated path (nil: package-level variable)
	glob bool
	pos  token.Pos
	what string
}

// mutations lists the places where a compound value is changed in place.
func (s *aliasScanner) mutations(fn *types.Func) []mutation {
	fd := s.decls[fn]
	info := s.fpkg[fn].TypesInfo
	var out []mutation
	rootOf := func(e ast.Expr) (types.Object, bool, bool) {
		id := rootIdent(e)
		if id == nil {
			return nil, false, false
		}
		o := info.Uses[id]
		if o == nil {
			o = info.Defs[id]
		}
		if o == nil {
			return nil, false, false
		}
		if _, isPkg := o.(*types.PkgName); isPkg {
			return nil, true, true
		}
		if isPkgLevelVar(o) {
			return nil, true, true
		}
		return o, false, true
	}
	ast.Inspect(fd.Body, func(n ast.Node) bool {
		switch x := n.(type) {
		case *ast.AssignStmt:
			for _, l := range x.Lhs {
				switch l.(type) {
				case *ast.SelectorExpr, *ast.IndexExpr:
					if o, g, ok := rootOf(l); ok {
						out = append(out, mutation{o, g, x.Pos(), "field or element assignment"})
					}
				}
			}
			// y := append(x, ...) on an array mutates x in place (x = append(x, ...) is the ordinary idiom)
			for i, r := range x.Rhs {
				if c, ok := r.(*ast.CallExpr); ok {
					if id, ok := c.Fun.(*ast.Ident); ok && id.Name == "append" && len(c.Args) > 0 {
						if _, isB := info.Uses[id].(*types.Builtin); isB {
							if atv, ok := info.Types[c.Args[0]]; ok && !isByteBuf(atv.Type) {
								if o, g, ok := rootOf(c.Args[0]); ok {
									same := false
									if i < len(x.Lhs) {
										if lo, _, ok2 := rootOf(x.Lhs[i]); ok2 && lo == o && !g {
											if _, plain := x.Lhs[i].(*ast.Ident); plain {
												if _, plainArg := c.Args[0].(*ast.Ident); plainArg {
													same = true
												}
											}
										}
									}
									_ = same
									out = append(out, mutation{o, g, x.Pos(), "append to an array (in place)"})
								}
							}
						}
					}
				}
			}
		case *ast.IncDecStmt:
			switch x.X.(type) {
			case *ast.SelectorExpr, *ast.IndexExpr:
				if o, g, ok := rootOf(x.X); ok {
					out = append(out, mutation{o, g, x.Pos(), "field or element update"})
				}
			}
		case *ast.CallExpr:
			if id, ok := x.Fun.(*ast.Ident); ok {
				if _, isB := info.Uses[id].(*types.Builtin); isB && id.Name == "copy" && len(x.Args) > 0 {
					if o, g, ok := rootOf(x.Args[0]); ok {
						out = append(out, mutation{o, g, x.Pos(), "copy into a buffer"})
					}
				}
			}
			if f, ok := calleeOf(info, x).(*types.Func); ok {
				full := f.FullName()
				if strings.Contains(full, "neogointernal.Opcode1NoReturn") && len(x.Args) > 1 {
					if o, g, ok := rootOf(x.Args[1]); ok {
						out = append(out, mutation{o, g, x.Pos(), "in-place VM opcode"})
					}
				}
				args := x.Args
				if sel, ok := x.Fun.(*ast.SelectorExpr); ok && f.Type().(*types.Signature).Recv() != nil {
					args = append([]ast.Expr{sel.X}, args...)
				}
				for i := range s.mutParam[f] {
					if i < len(args) {
						if tv, ok := info.Types[args[i]]; ok && isRefType(tv.Type) {
							if o, g, ok := rootOf(args[i]); ok {
								out = append(out, mutation{o, g, x.Pos(), "passed to " + f.Name() + ", which changes this parameter in place"})
							}
						}
					}
				}
			}
		}
		return true
	})
	return out
}

// summarise updates the summaries of fn; reports whether anything changed.
func (s *aliasScanner) summarise(fn *types.Func) bool {
	fd := s.decls[fn]
	info := s.fpkg[fn].TypesInfo
	af := s.collect(fn)
	ps := s.params(fn)
	pidx := map[string]int{}
	for i, p := range ps {
		if p != nil {
			pidx[key(p)] = i
		}
	}
	changed := false
	// what may be returned
	ast.Inspect(fd.Body, func(n ast.Node) bool {
		if _, isLit := n.(*ast.FuncLit); isLit {
			return false
		}
		r, ok := n.(*ast.ReturnStmt)
		if !ok {
			return true
		}
		for _, e := range r.Results {
			for root := range s.rootsOf(info, e, af) {
				if root == globalRoot {
					if !s.retGlob[fn] {
						s.retGlob[fn] = true
						changed = true
					}
				} else if i, isP := pidx[root]; isP {
					if s.retParam[fn] == nil {
						s.retParam[fn] = map[int]bool{}
					}
					if !s.retParam[fn][i] {
						s.retParam[fn][i] = true
						changed = true
					}
				}
			}
		}
		return true
	})
	// which parameters are changed in place (directly or through a local alias)
	for _, m := range s.mutations(fn) {
		if m.glob || m.root == nil {
			continue
		}
		roots := map[string]bool{key(m.root): true}
		for r := range af.edges[m.root] {
			roots[r] = true
		}
		for r := range roots {
			if i, isP := pidx[r]; isP && ps[i] != nil && isRefType(ps[i].Type()) {
				if s.mutParam[fn] == nil {
					s.mutParam[fn] = map[int]bool{}
				}
				if !s.mutParam[fn][i] {
					s.mutParam[fn][i] = true
					changed = true
				}
			}
		}
	}
	return changed
}

// usedAfter: is variable o read at a position after pos (or anywhere inside a loop that contains pos)?
func usedAfter(info *types.Info, body *ast.BlockStmt, o types.Object, pos token.Pos, skip ast.Node) bool {
	// loops containing pos
	var loops []ast.Node
	ast.Inspect(body, func(n ast.Node) bool {
		switch n.(type) {
		case *ast.ForStmt, *ast.RangeStmt:
			if n.Pos() <= pos && pos < n.End() {
				loops = append(loops, n)
			}
		}
		return true
	})
	found := false
	ast.Inspect(body, func(n ast.Node) bool {
		if found {
			return false
		}
		id, ok := n.(*ast.Ident)
		if !ok || info.Uses[id] != o {
			return true
		}
		if id.Pos() > pos {
			found = true
			return false
		}
		for _, l := range loops {
			if l.Pos() <= id.Pos() && id.Pos() < l.End() {
				found = true
				return false
			}
		}
		return true
	})
	return found
}

// definedAfterAssign: is the only later use of o a plain re-assignment (o = fresh)? Not tracked: any later identifier counts as a use.

func (s *aliasScanner) check(fn *types.Func) []AliasFinding {
	fd := s.decls[fn]
	p := s.fpkg[fn]
	info := p.TypesInfo
	name := p.Types.Name() + "." + specKey(fn)
	if _, ok := benignAlias[name]; ok {
		return nil
	}
	af := s.collect(fn)
	var out []AliasFinding
	report := func(pos token.Pos, what string) {
		out = append(out, AliasFinding{Pkg: p.Types.Name(), Func: name, Pos: p.Fset.Position(pos).String(), What: what})
	}
	seen := map[string]bool{}
	for _, m := range s.mutations(fn) {
		if m.glob {
			report(m.pos, m.what+" of a package-level compound variable (it lives for the whole invocation)")
			continue
		}
		if m.root == nil {
			continue
		}
		// aliases of the mutated variable: what it may refer to, and what may refer to it
		for r, apos := range af.edges[m.root] {
			if r == globalRoot {
				k := fmt.Sprintf("g%v", m.pos)
				if !seen[k] {
					seen[k] = true
					report(m.pos, m.what+" through "+m.root.Name()+", which may refer to a package-level variable (shared for the whole invocation)")
				}
				continue
			}
			other := af.objOf[r]
			if other == nil || other == m.root || apos > m.pos {
				continue
			}
			if usedAfter(info, fd.Body, other, m.pos, nil) {
				k := fmt.Sprintf("%p%p", m.root, other)
				if !seen[k] {
					seen[k] = true
					report(m.pos, m.what+" through "+m.root.Name()+" while "+other.Name()+" refers to the same object and is used afterwards")
				}
			}
		}
		for o2, roots := range af.edges {
			apos, has := roots[key(m.root)]
			if !has || o2 == m.root {
				continue
			}
			// o2 refers to (a part of) m.root and m.root is changed: a problem if o2 was created before and is used afterwards
			if apos < m.pos && usedAfter(info, fd.Body, o2, m.pos, nil) {
				k := fmt.Sprintf("%p%p", m.root, o2)
				if !seen[k] {
					seen[k] = true
					report(m.pos, m.what+" of "+m.root.Name()+" while "+o2.Name()+" refers to the same object and is used afterwards")
				}
			}
		}
	}
	return out
}
