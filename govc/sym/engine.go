// Package sym is the symbolic executor over the typed Go AST (neo-go dialect).
package sym

import (
	"fmt"
	"go/ast"
	"go/constant"
	"go/token"
	"go/types"
	"os"
	"sort"
	"strings"

	"golang.org/x/tools/go/packages"

	"govc/smt"
	"govc/spec"
	"govc/sx"
)

// Val is a symbolic Go value. For interface-typed expressions Ty is the
// dynamic type when known; Deser marks a pending std.Deserialize result.
type Val struct {
	spec.TV
	KnownLen int     // for byte buffers built by make([]byte, const): the constant length + 1 (0 = unknown)
	Cells    []*sx.T // for such buffers: one single-byte string term per position
	Deser    *sx.T
	Iter     *IterVal // storage iterator; T is the number of items consumed
	Pair     *[2]Val  // key/value item of an iterator awaiting its struct type
	Fn       *ast.FuncLit // a function literal bound to a local variable: calls of the variable run its body in place
}

// IterVal is the ghost snapshot behind a storage.Find iterator.
type IterVal struct {
	ID     int
	Store  *sx.T // store at the time of Find
	Prefix *sx.T
	Opts   int64
}

// The snapshot of storage.Find(prefix) on store S is described by three global functions of (S, prefix):
// cnt = number of keys with the prefix, skey(j) = the j-th such key in ascending bytewise order,
// sidx(k) = the position of key k. Contracts can name them (cnt, skey, sidx).
// A Backwards iterator walks the same sequence from its end: its j-th key is skey(cnt-1-j).
func (it *IterVal) lenT() *sx.T { return sx.App("cnt", it.Store, it.Prefix) }
func (it *IterVal) keyT(j *sx.T) *sx.T {
	if it.Opts&optBackwards != 0 {
		j = sx.App("-", sx.App("-", it.lenT(), sx.Int(1)), j)
	}
	return sx.App("skey", it.Store, it.Prefix, j)
}
func (it *IterVal) idxT(k *sx.T) *sx.T {
	i := sx.App("sidx", it.Store, it.Prefix, k)
	if it.Opts&optBackwards != 0 {
		return sx.App("-", sx.App("-", it.lenT(), sx.Int(1)), i)
	}
	return i
}

// ascending accessors (what the snapshot axioms are stated over)
func (it *IterVal) akeyT(j *sx.T) *sx.T { return sx.App("skey", it.Store, it.Prefix, j) }
func (it *IterVal) aidxT(k *sx.T) *sx.T { return sx.App("sidx", it.Store, it.Prefix, k) }

type loopCtx struct {
	label      string
	onBreak    func(st *State)
	onContinue func(st *State)
	isSwitch   bool
}

func mk(t *sx.T, k spec.TK) Val { return Val{TV: spec.TV{T: t, Ty: spec.Type{K: k}}} }
func mkS(t *sx.T, name string) Val {
	return Val{TV: spec.TV{T: t, Ty: spec.Type{K: spec.KStruct, Name: name}}}
}
func unit() Val            { return Val{TV: spec.TV{Ty: spec.Type{K: spec.KUnit}}} }
func nbv(s *sx.T) Val      { return mk(spec.MkNB(s), spec.KNB) }
func (v Val) bytes() *sx.T { return spec.Bv(v.T) }

type State struct {
	vars   map[types.Object]Val
	store  *sx.T
	notifs spec.LogVal
	xcalls spec.LogVal
	xm     map[string]spec.LogVal // external calls per callee method
	xgen   int                    // generation of the per-method bases not yet materialised
	xgenOf map[string]int         // per-method generations set by a framed havoc (a callee that can append to these logs only)
	pc     []*sx.T                // branch conditions
	facts  []*sx.T                // assumed facts (callee postconditions, no-fault conditions)
	defs   []*sx.T                // definitions of named terms
	dirty  bool
}

func (s *State) clone() *State {
	n := &State{vars: make(map[types.Object]Val, len(s.vars)), store: s.store, dirty: s.dirty}
	for k, v := range s.vars {
		n.vars[k] = v
	}
	n.notifs = spec.LogVal{Base: s.notifs.Base, Items: append([]spec.Event{}, s.notifs.Items...)}
	n.xcalls = spec.LogVal{Base: s.xcalls.Base, Items: append([]spec.Event{}, s.xcalls.Items...)}
	n.xgen = s.xgen
	if len(s.xgenOf) > 0 {
		n.xgenOf = make(map[string]int, len(s.xgenOf))
		for k, v := range s.xgenOf {
			n.xgenOf[k] = v
		}
	}
	n.xm = make(map[string]spec.LogVal, len(s.xm))
	for k, v := range s.xm {
		n.xm[k] = spec.LogVal{Base: v.Base, Items: append([]spec.Event{}, v.Items...)}
	}
	n.pc = append([]*sx.T{}, s.pc...)
	n.defs = append([]*sx.T{}, s.defs...)
	n.facts = append([]*sx.T{}, s.facts...)
	return n
}

// xlog returns the per-method call log, materialising its symbolic base on first use.
func (e *Engine) xlog(st *State, method string) spec.LogVal {
	if l, ok := st.xm[method]; ok {
		return l
	}
	if st.xm == nil {
		st.xm = map[string]spec.LogVal{}
	}
	gen := st.xgen
	if g, ok := st.xgenOf[method]; ok && g > gen {
		gen = g
	}
	base := fmt.Sprintf("xm_%s_g%d", strings.NewReplacer(".", "_", "-", "_").Replace(method), gen)
	e.extraFn["xm:"+base] = fmt.Sprintf("(declare-const %s Int)\n(declare-fun at_%s (Int) GhostEv)", base, base)
	l := spec.LogVal{Base: base}
	st.xm[method] = l
	st.facts = append(st.facts, sx.App(">=", sx.Atom(base), sx.Int(0))) // a log has a non-negative length
	return l
}

func (e *Engine) xappend(st *State, method string, ev spec.Event) {
	l := e.xlog(st, method)
	l.Items = append(append([]spec.Event{}, l.Items...), ev)
	st.xm[method] = l
}

func xmKey(st *State) string {
	keys := make([]string, 0, len(st.xm))
	for k := range st.xm {
		keys = append(keys, k)
	}
	sort.Strings(keys)
	var b strings.Builder
	fmt.Fprintf(&b, "g%d", st.xgen)
	for _, k := range keys {
		b.WriteString("#" + k + ":" + logKey(st.xm[k]))
	}
	if len(st.xgenOf) > 0 {
		gk := make([]string, 0, len(st.xgenOf))
		for k := range st.xgenOf {
			gk = append(gk, k)
		}
		sort.Strings(gk)
		for _, k := range gk {
			if _, mat := st.xm[k]; !mat && st.xgenOf[k] > st.xgen {
				fmt.Fprintf(&b, "#%s@g%d", k, st.xgenOf[k])
			}
		}
	}
	return b.String()
}

func logKey(l spec.LogVal) string {
	var b strings.Builder
	b.WriteString(l.Base)
	for _, it := range l.Items {
		b.WriteString("|" + it.Name)
		for _, a := range it.Args {
			b.WriteString("," + a.String())
		}
	}
	return b.String()
}

// Exit is one way a function terminates.
type Exit struct {
	St    *State
	Rets  []Val
	Fault bool
	Msg   string
}

// writeRec is one storage write seen by a dry run of a loop body (frame inference).
type writeRec struct {
	key  *sx.T
	defs []*sx.T
}

type Engine struct {
	curOverride map[string]spec.TV // values of cur(p) for the pointer parameters of the contract being applied (set by call)
	evTypes    map[string]map[string][]string // package path -> event name -> declared parameter types
	writeLog   *[]writeRec                    // non-nil during a dry run
	dry        int
	Pkgs       map[string]*packages.Package // by package path
	funcs      map[*types.Func]*ast.FuncDecl
	fpkg       map[*types.Func]*packages.Package
	Specs      map[string]*spec.File // by package path
	Structs    map[string][]spec.Field
	Lists      map[string]spec.Type // list sort name -> element type
	stypes     map[string]types.Type
	order      []string
	fresh      int
	consts     []smt.Var
	globals    map[types.Object]Val
	extraFn    map[string]string // uninterpreted function declarations
	nfaults    int
	nsnaps     int
	Relied     map[string][]RelyInv // by package path: package invariants proved in other modules that hold on entry of exported methods
	Applied    map[string]bool      // "<package name>.<function key>" of every contract applied at a call site (which supporting contracts a check rests on)
	Go64       bool                 // dialect go64: fixed-width integers, overflow-freedom is an obligation
	Sweep      bool                 // zero-annotation mode: loops are cut with the syntactic frame only
	ufSig      map[string]string
	unmodelled map[string]int
	writes     map[*types.Func]bool
	logs       map[*types.Func]bool
	gen        int
}

// RelyInv is a package invariant of another module of the same package (translated with that module's definitions).
type RelyInv struct {
	From string // module that proves it
	Inv  *spec.InvDecl
	File *spec.File
}

// Unmodelled reports interop functions that were abstracted as uninterpreted in sweep mode.
func (e *Engine) Unmodelled() map[string]int { return e.unmodelled }

func init() {
	spec.SortOf = func(t *sx.T) string { return "?" }
}

func New(pkgs []*packages.Package) *Engine {
	e := &Engine{Pkgs: map[string]*packages.Package{}, funcs: map[*types.Func]*ast.FuncDecl{}, fpkg: map[*types.Func]*packages.Package{},
		Specs: map[string]*spec.File{}, Structs: map[string][]spec.Field{}, Lists: map[string]spec.Type{}, stypes: map[string]types.Type{}, globals: map[types.Object]Val{}, extraFn: map[string]string{}, ufSig: map[string]string{}, unmodelled: map[string]int{}, writes: map[*types.Func]bool{}, logs: map[*types.Func]bool{}}
	e.bind()
	spec.EventDecls = map[string]string{} // event constructors are declared per engine (their sorts are this engine's structs)
	for _, p := range pkgs {
		e.Pkgs[p.PkgPath] = p
		for _, f := range p.Syntax {
			for _, d := range f.Decls {
				if fd, ok := d.(*ast.FuncDecl); ok && fd.Body != nil {
					fn := p.TypesInfo.Defs[fd.Name].(*types.Func)
					e.funcs[fn] = fd
					e.fpkg[fn] = p
				}
			}
		}
	}
	return e
}

// bind routes the declarations requested by the contract translator to this engine.
func (e *Engine) bind() {
	spec.Declare = func(key, decl string) { e.extraFn[key] = decl }
	spec.NeedList = func(elem spec.Type) { e.listOf(elem) }
}

func (e *Engine) nextGen() int {
	e.gen++
	return e.gen
}

func (e *Engine) sym(prefix, sort string) *sx.T {
	e.fresh++
	n := fmt.Sprintf("%s!%d", prefix, e.fresh)
	e.consts = append(e.consts, smt.Var{Name: n, Sort: sort})
	return sx.Atom(n)
}

func isByteSlice(t types.Type) bool {
	switch u := t.Underlying().(type) {
	case *types.Slice:
		if b, ok := u.Elem().Underlying().(*types.Basic); ok && b.Kind() == types.Uint8 {
			return true
		}
	case *types.Basic:
		return u.Info()&types.IsString != 0
	}
	return false
}

func (e *Engine) listOf(elem spec.Type) spec.Type {
	name := "L_" + elem.Sort()
	if _, ok := e.Lists[name]; !ok {
		e.Lists[name] = elem
		e.order = append(e.order, "list:"+name)
	}
	return spec.Type{K: spec.KList, Name: name}
}

func (e *Engine) typeOf(t types.Type) spec.Type {
	if isByteSlice(t) {
		return spec.Type{K: spec.KNB}
	}
	if strings.HasSuffix(t.String(), "storage.Context") || strings.HasSuffix(t.String(), "iterator.Iterator") {
		return spec.Type{K: spec.KUnit}
	}
	switch u := t.Underlying().(type) {
	case *types.Basic:
		switch {
		case u.Info()&types.IsInteger != 0:
			return spec.Type{K: spec.KInt}
		case u.Info()&types.IsBoolean != 0:
			return spec.Type{K: spec.KBool}
		case u.Kind() == types.UntypedNil:
			return spec.Type{K: spec.KNB}
		}
	case *types.Slice:
		return e.listOf(e.typeOf(u.Elem()))
	case *types.Array:
		// a byte array ([20]byte account, [32]byte hash) is a byte string of that length (values are modelled functionally)
		if b, ok := u.Elem().Underlying().(*types.Basic); ok && (b.Kind() == types.Uint8 || b.Kind() == types.Byte) {
			return spec.Type{K: spec.KNB}
		}
	case *types.Map:
		return spec.Type{K: spec.KMap}
	case *types.Pointer:
		return e.typeOf(u.Elem())
	case *types.Struct:
		name := ""
		if n, ok := t.(*types.Named); ok {
			name = n.Obj().Name()
			switch name { // names of SMT sorts used by the prelude
			case "Int", "Bool", "String", "Real", "Array", "Store", "Opt", "NB", "Any", "MapV", "GhostEv", "RegLan", "Seq":
				name = n.Obj().Pkg().Name() + "_" + name
			}
			if prev, ok := e.stypes[name]; ok && !types.Identical(prev, t) {
				name = n.Obj().Pkg().Name() + "_" + name
			}
		} else {
			var parts []string
			for i := 0; i < u.NumFields(); i++ {
				parts = append(parts, u.Field(i).Name())
			}
			name = "Anon_" + strings.Join(parts, "_")
		}
		if _, ok := e.Structs[name]; !ok {
			e.Structs[name] = nil // reserve (recursion guard)
			e.stypes[name] = t
			done := false
			defer func() {
				if !done { // a field type outside the subset: forget the partial registration
					delete(e.Structs, name)
					delete(e.stypes, name)
				}
			}()
			var fs []spec.Field
			for i := 0; i < u.NumFields(); i++ {
				fn := u.Field(i).Name()
				if fn == "_" {
					fn = fmt.Sprintf("blank%d", i)
				}
				fs = append(fs, spec.Field{Name: fn, Ty: e.fieldTypeOf(u.Field(i).Type())})
			}
			e.Structs[name] = fs
			e.order = append(e.order, name)
			done = true
		}
		return spec.Type{K: spec.KStruct, Name: name}
	case *types.Interface:
		return spec.Type{K: spec.KAny}
	case *types.Signature:
		return spec.Type{K: spec.KUnit}
	}
	panic("unsupported type " + t.String())
}

// fieldTypeOf: a struct field of a type outside the subset (channels, functions, nested library types) is kept as an
// opaque value; only the fields a function under contract actually uses need a model.
func (e *Engine) fieldTypeOf(t types.Type) (ty spec.Type) {
	defer func() {
		if r := recover(); r != nil {
			ty = spec.Type{K: spec.KAny}
		}
	}()
	// a type that refers to itself (directly or through pointers and slices) has no finite datatype: keep the field opaque
	var inProgress func(t types.Type, depth int) bool
	inProgress = func(t types.Type, depth int) bool {
		if depth > 4 {
			return false
		}
		switch u := t.(type) {
		case *types.Pointer:
			return inProgress(u.Elem(), depth+1)
		case *types.Slice:
			return inProgress(u.Elem(), depth+1)
		case *types.Named:
			if _, isStruct := u.Underlying().(*types.Struct); isStruct {
				if fs, reserved := e.Structs[u.Obj().Name()]; reserved && fs == nil {
					return true
				}
			}
		}
		return false
	}
	if inProgress(t, 0) {
		return spec.Type{K: spec.KAny}
	}
	ty = e.typeOf(t)
	if ty.K == spec.KUnit {
		ty = spec.Type{K: spec.KAny}
	}
	return ty
}

func (e *Engine) zero(ty spec.Type) *sx.T {
	switch ty.K {
	case spec.KInt:
		return sx.Int(0)
	case spec.KBool:
		return sx.Bool(false)
	case spec.KNB:
		return spec.NilNB
	case spec.KOpt:
		return sx.Atom("None")
	case spec.KAny:
		return sx.Atom("AnyNull")
	case spec.KMap:
		return sx.Atom("MapEmpty")
	case spec.KList:
		return sx.App("mk"+ty.Name, sx.Bool(true), sx.Int(0), sx.Atom("arr0_"+ty.Name))
	case spec.KStruct:
		var parts []*sx.T
		for _, f := range e.Structs[ty.Name] {
			parts = append(parts, e.zero(f.Ty))
		}
		return sx.App("mk"+ty.Name, parts...)
	}
	panic("zero of " + ty.Sort())
}

// zeroGo is the zero value of a Go type: as zero(typeOf(t)), except that (dialect go64) the zero value of a pointer to a
// struct is the nil pointer of that struct, not a struct of zero fields.
func (e *Engine) zeroGo(t types.Type) *sx.T {
	ty := e.typeOf(t)
	if e.Go64 && ty.K == spec.KStruct {
		if _, isPtr := t.Underlying().(*types.Pointer); isPtr {
			spec.DeclareNilPtr(ty.Name)
			return sx.Atom("nilp_" + ty.Name)
		}
	}
	return e.zero(ty)
}

// Prelude returns declarations and axioms shared by all queries.
func (e *Engine) Prelude(sp *spec.File) (decls []string, quants []smt.Quant) {
	decls = append(decls,
		"(declare-datatypes ((NB 0)) (((mkNB (isnull Bool) (bv String)))))",
		"(declare-datatypes ((Opt 0)) (((None) (Some (val String)))))",
		"(define-sort Store () (Array String Opt))",
		"(declare-fun W (String) Bool)",
		"(declare-fun i2b (Int) String)",
		"(declare-fun b2i (String) Int)",
		"(declare-const callingScriptHash String)",
		"(declare-const store0 Store)",
	)
	quants = append(quants, smt.Quant{Name: "b2i-i2b", Vars: []smt.Var{{Name: "x", Sort: "Int"}},
		Body: sx.MustParse1("(= (b2i (i2b x)) x)"), Pats: [][]*sx.T{{sx.MustParse1("(i2b x)")}}})
	decls = append(decls, "(declare-sort Any 0)", "(declare-const AnyNull Any)", "(declare-sort MapV 0)", "(declare-const MapEmpty MapV)", "(declare-fun map_len (MapV) Int)", "(declare-sort GhostEv 0)",
		"(declare-const notifs0 Int)", "(declare-const xcalls0 Int)", "(declare-fun at_notifs0 (Int) GhostEv)", "(declare-fun at_xcalls0 (Int) GhostEv)")
	for _, name := range e.order {
		if strings.HasPrefix(name, "list:") {
			ln := strings.TrimPrefix(name, "list:")
			el := e.Lists[ln].Sort()
			decls = append(decls,
				fmt.Sprintf("(declare-datatypes ((%s 0)) (((mk%s (%s_null Bool) (%s_len Int) (%s_arr (Array Int %s))))))", ln, ln, ln, ln, ln, el),
				fmt.Sprintf("(declare-const arr0_%s (Array Int %s))", ln, el),
				fmt.Sprintf("(declare-fun ser_%s (%s) String)", ln, ln),
				fmt.Sprintf("(declare-fun deser_%s (String) %s)", ln, ln))
			quants = append(quants, smt.Quant{Name: "deser-ser-" + ln, Vars: []smt.Var{{Name: "a", Sort: ln}},
				Body: sx.MustParse1(fmt.Sprintf("(= (deser_%s (ser_%s a)) a)", ln, ln)),
				Pats: [][]*sx.T{{sx.MustParse1(fmt.Sprintf("(ser_%s a)", ln))}}})
			continue
		}
		var b strings.Builder
		fmt.Fprintf(&b, "(declare-datatypes ((%s 0)) (((mk%s", name, name)
		for _, f := range e.Structs[name] {
			fmt.Fprintf(&b, " (%s_%s %s)", name, f.Name, f.Ty.Sort())
		}
		b.WriteString("))))")
		decls = append(decls, b.String(),
			fmt.Sprintf("(declare-fun ser_%s (%s) String)", name, name),
			fmt.Sprintf("(declare-fun deser_%s (String) %s)", name, name))
		quants = append(quants, smt.Quant{Name: "deser-ser-" + name, Vars: []smt.Var{{Name: "a", Sort: name}},
			Body: sx.MustParse1(fmt.Sprintf("(= (deser_%s (ser_%s a)) a)", name, name)),
			Pats: [][]*sx.T{{sx.MustParse1(fmt.Sprintf("(ser_%s a)", name))}}})
	}
	{
		// uninterpreted functions and folds of the module under verification and of the modules whose contracts it uses
		files := []*spec.File{}
		if sp != nil {
			files = append(files, sp)
		}
		var pk []string
		for k := range e.Specs {
			pk = append(pk, k)
		}
		sort.Strings(pk)
		for _, k := range pk {
			if e.Specs[k] != sp {
				files = append(files, e.Specs[k])
			}
		}
		declared := map[string]bool{}
		for _, f := range files {
			var unames []string
			for n := range f.UFuns {
				unames = append(unames, n)
			}
			sort.Strings(unames)
			for _, n := range unames {
				if declared["uf_"+n] {
					continue
				}
				declared["uf_"+n] = true
				u := f.UFuns[n]
				var ps []string
				for _, p := range u.Params {
					ps = append(ps, specSort(p.Type))
				}
				decls = append(decls, fmt.Sprintf("(declare-fun uf_%s (%s) %s)", n, strings.Join(ps, " "), specSort(u.Result)))
			}
			names := make([]string, 0, len(f.Folds))
			for n := range f.Folds {
				names = append(names, n)
			}
			sort.Strings(names)
			for _, n := range names {
				if declared["fold_"+n] {
					continue
				}
				declared["fold_"+n] = true
				decls = append(decls, fmt.Sprintf("(declare-fun fold_%s (Store) Int)", n))
				// extensionality of a fold, in witness form (part of L-FOLD, A11): two stores with different sums differ in
				// the contribution of some key - foldwit names one. Lets a fold be carried across a loop or a call whose
				// contract only says which keys are unchanged.
				decls = append(decls, fmt.Sprintf("(declare-fun foldwit_%s (Store Store) String)", n))
				fd := f.Folds[n]
				sv, tv := sx.Atom("s?fx"), sx.Atom("t?fx")
				wit := sx.App("foldwit_"+n, sv, tv)
				contrib := func(store *sx.T) *sx.T {
					env := spec.NewEnv(f, e.Structs)
					env.Lists = e.Lists
					env.Vars[fd.Store] = spec.TV{T: store, Ty: spec.Type{K: spec.KStore}}
					env.Vars[fd.KeyVar] = spec.TV{T: wit, Ty: spec.Type{K: spec.KBytes}}
					has := sx.Not(sx.App("(_ is None)", sx.App("select", store, wit)))
					return sx.Ite(sx.And(has, env.Tr(fd.Where).T), env.Tr(fd.Summand).T, sx.Int(0))
				}
				// the sum over the empty store is 0 (part of L-FOLD, A11): base of invariants established by a first deployment
				decls = append(decls, fmt.Sprintf("(assert (= (fold_%s ((as const Store) None)) 0))", n))
				quants = append(quants, smt.Quant{Name: "fold-ext-" + n, Vars: []smt.Var{{Name: "s?fx", Sort: "Store"}, {Name: "t?fx", Sort: "Store"}},
					Body: sx.Or(sx.App("=", sx.App("fold_"+n, sv), sx.App("fold_"+n, tv)), sx.Not(sx.App("=", contrib(sv), contrib(tv)))),
					Pats: [][]*sx.T{{sx.App("fold_"+n, sv), sx.App("fold_"+n, tv)}}})
			}
		}
	}
	if _, ok := e.extraFn["uf:native_std_StringSplit"]; ok {
		// std.StringSplit(s, sep): at least one fragment; a single fragment is s itself and holds no separator;
		// otherwise s starts with the first fragment followed by the separator, which the first fragment does not hold.
		// (Axioms over an uninterpreted function, true of the real split; not over a datatype sort.)
		sp := "(native_std_StringSplit s sep)"
		first := "(bv (select (L_NB_arr " + sp + ") 0))"
		vars := []smt.Var{{Name: "s", Sort: "String"}, {Name: "sep", Sort: "String"}}
		pat := [][]*sx.T{{sx.MustParse1(sp)}}
		for i, body := range []string{
			"(and (>= (L_NB_len " + sp + ") 1) (not (L_NB_null " + sp + ")))",
			"(=> (and (>= (str.len sep) 1) (= (L_NB_len " + sp + ") 1)) (and (= " + first + " s) (not (str.contains s sep))))",
			"(=> (and (>= (str.len sep) 1) (> (L_NB_len " + sp + ") 1)) (and (str.prefixof (str.++ " + first + " sep) s) (not (str.contains " + first + " sep))))",
		} {
			quants = append(quants, smt.Quant{Name: fmt.Sprintf("split%d", i), Vars: vars, Body: sx.MustParse1(body), Pats: pat})
		}
	}
	if _, ok := e.extraFn["uf:native_std_StringSplit"]; ok {
		// more of the trusted contract of std.StringSplit: no fragment holds the (non-empty) separator, and the
		// fragments with the separators between them add up to the text (std_splitacc(s, sep, k): length of the first k
		// fragments joined by the separator)
		e.extraFn["uf:std_splitacc"] = "(declare-fun std_splitacc (String String Int) Int)"
		sp := "(native_std_StringSplit s sep)"
		at := "(bv (select (L_NB_arr " + sp + ") i))"
		v2 := []smt.Var{{Name: "s", Sort: "String"}, {Name: "sep", Sort: "String"}}
		v3 := append(append([]smt.Var{}, v2...), smt.Var{Name: "i", Sort: "Int"})
		quants = append(quants,
			smt.Quant{Name: "splitNoSep", Vars: v3, Pats: [][]*sx.T{{sx.MustParse1("(select (L_NB_arr " + sp + ") i)")}},
				Body: sx.MustParse1("(=> (and (>= (str.len sep) 1) (<= 0 i) (< i (L_NB_len " + sp + "))) (and (not (str.contains " + at + " sep)) (not (isnull (select (L_NB_arr " + sp + ") i)))))")},
			smt.Quant{Name: "splitAcc0", Vars: v2, Pats: [][]*sx.T{{sx.MustParse1(sp)}},
				Body: sx.MustParse1("(and (= (std_splitacc s sep 0) 0) (=> (>= (str.len sep) 1) (= (std_splitacc s sep (L_NB_len " + sp + ")) (str.len s))))")},
			smt.Quant{Name: "splitAccS", Vars: v3, Pats: [][]*sx.T{{sx.MustParse1("(select (L_NB_arr " + sp + ") i)")}},
				Body: sx.MustParse1("(=> (and (<= 0 i) (< i (L_NB_len " + sp + "))) (= (std_splitacc s sep (+ i 1)) (+ (std_splitacc s sep i) (str.len " + at + ") (ite (> i 0) (str.len sep) 0))))")},
		)
	}
	for _, base := range []int{10, 16} {
		if _, ok := e.extraFn[fmt.Sprintf("uf:std_atoi%d_ok", base)]; !ok {
			continue
		}
		// Trusted contract of the native StdLib atoi (neo-go pkg/core/native/std.go). Validity: at most 1024 bytes and
		// base 10: [+-]?[0-9]+ (big.Int.SetString); base 16: [0-9a-fA-F]* (hex.DecodeString after padding to even length).
		// Value, base 10: non-negative without sign, the digit itself for one digit, at least 10^(len-1) without leading zero.
		// Value, base 16 (std_hexu: unsigned reading): two's complement of the digits, i.e. hexu - 16^len when the first
		// digit is 8 or more (also for odd lengths: the padding nibble is sign-extended); stated for up to 5 digits.
		ok := fmt.Sprintf("(std_atoi%d_ok f)", base)
		val := fmt.Sprintf("(std_atoi%d f)", base)
		bad := fmt.Sprintf("(std_atoi%d_bad f)", base)
		code := func(i string) string { return "(str.to_code (str.at f " + i + "))" }
		vf := []smt.Var{{Name: "f", Sort: "String"}}
		vfi := []smt.Var{{Name: "f", Sort: "String"}, {Name: "i", Sort: "Int"}}
		pOK := [][]*sx.T{{sx.MustParse1(ok)}}
		pOKi := [][]*sx.T{{sx.MustParse1(ok), sx.MustParse1("(str.at f i)")}}
		pVal := [][]*sx.T{{sx.MustParse1(val)}}
		add := func(name string, vars []smt.Var, pats [][]*sx.T, body string) {
			quants = append(quants, smt.Quant{Name: fmt.Sprintf("atoi%d%s", base, name), Vars: vars, Body: sx.MustParse1(body), Pats: pats})
		}
		if base == 10 {
			lo := "(ite (or (= (str.at f 0) \"+\") (= (str.at f 0) \"-\")) 1 0)"
			dig := func(c string) string { return "(and (<= 48 " + c + ") (<= " + c + " 57))" }
			add("Digits", vfi, pOKi, "(=> (and "+ok+" (<= "+lo+" i) (< i (str.len f))) "+dig(code("i"))+")")
			add("Len", vf, pOK, "(=> "+ok+" (and (>= (str.len f) (+ 1 "+lo+")) (<= (str.len f) 1024)))")
			add("Bad", vf, pOK, "(=> (not "+ok+") (or (< (str.len f) (+ 1 "+lo+")) (> (str.len f) 1024) (and (<= "+lo+" "+bad+") (< "+bad+" (str.len f)) (not "+dig(code(bad))+"))))")
			add("NonNeg", vf, pVal, "(=> (and "+ok+" (= "+lo+" 0)) (>= "+val+" 0))")
			add("One", vf, pVal, "(=> (and "+ok+" (= "+lo+" 0) (= (str.len f) 1)) (= "+val+" (- "+code("0")+" 48)))")
			for k, p := range []int{1, 10, 100, 1000} {
				add(fmt.Sprintf("Lead%d", k), vf, pVal, fmt.Sprintf("(=> (and %s (= %s 0) (not (= (str.at f 0) \"0\")) (>= (str.len f) %d)) (>= %s %d))", ok, lo, k+1, val, p))
				add(fmt.Sprintf("Up%d", k), vf, pVal, fmt.Sprintf("(=> (and %s (= %s 0) (= (str.len f) %d)) (< %s %d))", ok, lo, k+1, val, p*10))
			}
			continue
		}
		hex := func(c string) string {
			return "(or (and (<= 48 " + c + ") (<= " + c + " 57)) (and (<= 97 " + c + ") (<= " + c + " 102)) (and (<= 65 " + c + ") (<= " + c + " 70)))"
		}
		hexd := func(c string) string {
			return "(ite (<= " + c + " 57) (- " + c + " 48) (ite (>= " + c + " 97) (- " + c + " 87) (- " + c + " 55)))"
		}
		hu := "(std_hexu f)"
		pHu := [][]*sx.T{{sx.MustParse1(hu)}}
		add("Digits", vfi, pOKi, "(=> (and "+ok+" (<= 0 i) (< i (str.len f))) "+hex(code("i"))+")")
		add("Len", vf, pOK, "(=> "+ok+" (<= (str.len f) 1024))")
		add("Bad", vf, pOK, "(=> (not "+ok+") (or (> (str.len f) 1024) (and (<= 0 "+bad+") (< "+bad+" (str.len f)) (not "+hex(code(bad))+"))))")
		add("UNonNeg", vf, pHu, "(>= "+hu+" 0)")
		add("UZero", vf, [][]*sx.T{{sx.MustParse1("(std_hexu (str.++ \"0\" f))")}}, "(= (std_hexu (str.++ \"0\" f)) "+hu+")")
		add("ZeroOk", vf, [][]*sx.T{{sx.MustParse1("(std_atoi16_ok (str.++ \"0\" f))")}}, "(= (std_atoi16_ok (str.++ \"0\" f)) (and "+ok+" (<= (str.len f) 1023)))")
		add("Empty", vf, pVal, "(=> (= (str.len f) 0) (= "+val+" 0))")
		p16 := 1
		for k := 1; k <= 5; k++ {
			add(fmt.Sprintf("URange%d", k), vf, pHu, fmt.Sprintf("(=> (and %s (= (str.len f) %d)) (and (<= (* %s %d) %s) (< %s (* (+ %s 1) %d))))", ok, k, hexd(code("0")), p16, hu, hu, hexd(code("0")), p16))
			add(fmt.Sprintf("Val%d", k), vf, pVal, fmt.Sprintf("(=> (and %s (= (str.len f) %d)) (= %s (- %s (ite (>= %s 8) %d 0))))", ok, k, val, hu, hexd(code("0")), p16*16))
			p16 *= 16
		}
	}
	if _, ok := e.extraFn["uf:native_std_MemorySearchLastIndex"]; ok {
		// std.MemorySearchLastIndex(mem, val, start): index of the last occurrence of val in mem[:start], or -1. Axioms
		// over the uninterpreted function (true of the real search): a found index is an occurrence inside mem[:start];
		// if mem[:start] ends with val, the index is start - len(val); -1 means no occurrence.
		f := "(native_std_MemorySearchLastIndex m v s)"
		vars := []smt.Var{{Name: "m", Sort: "String"}, {Name: "v", Sort: "String"}, {Name: "s", Sort: "Int"}}
		pat := [][]*sx.T{{sx.MustParse1(f)}}
		for i, body := range []string{
			"(>= " + f + " (- 1))",
			"(=> (>= " + f + " 0) (and (= (str.substr m " + f + " (str.len v)) v) (<= (+ " + f + " (str.len v)) s)))",
			"(=> (and (<= 0 s) (<= s (str.len m)) (str.suffixof v (str.substr m 0 s))) (= " + f + " (- s (str.len v))))",
			"(=> (and (<= 0 s) (<= s (str.len m)) (= " + f + " (- 1))) (not (str.contains (str.substr m 0 s) v)))",
		} {
			quants = append(quants, smt.Quant{Name: fmt.Sprintf("lastidx%d", i), Vars: vars, Body: sx.MustParse1(body), Pats: pat})
		}
	}
	for _, c := range e.consts {
		if strings.HasPrefix(c.Name, "notifs!") || strings.HasPrefix(c.Name, "xcalls!") {
			e.extraFn["logat:"+c.Name] = fmt.Sprintf("(declare-fun at_%s (Int) GhostEv)", c.Name)
		}
	}
	var evk []string
	for k := range spec.EventDecls {
		evk = append(evk, k)
	}
	sort.Strings(evk)
	for _, k := range evk {
		e.extraFn["zz-ev:"+k] = strings.SplitN(spec.EventDecls[k], "|", 2)[1]
	}
	keys := make([]string, 0, len(e.extraFn))
	for k := range e.extraFn {
		keys = append(keys, k)
	}
	sort.Strings(keys)
	for _, k := range keys {
		decls = append(decls, e.extraFn[k])
	}
	return
}

func specSort(t string) string {
	switch t {
	case "Bytes":
		return "String"
	case "OptBytes":
		return "Opt"
	}
	return t
}

func (e *Engine) Consts() []smt.Var { return e.consts }

// ---- frames ------------------------------------------------------------------

type frame struct {
	parent  *frame
	fn      *types.Func
	pkg     *packages.Package
	info    *types.Info
	onRet   func(st *State, rets []Val)
	exits   *[]Exit
	depth   int
	ver     *verifier
	escaped int // returns executed in this activation
	loops   []loopCtx
	nloops  int // loops met so far in this activation (ordinal)
	// a deferred recovering handler is installed: faults below may be caught and end this activation normally
	recovering bool
}

// onStack reports whether fn is being executed in this frame or one of its callers.
func (fr *frame) onStack(fn *types.Func) bool {
	for f := fr; f != nil; f = f.parent {
		if f.fn == fn {
			return true
		}
	}
	return false
}

func (e *Engine) fault(fr *frame, st *State, msg string) {
	e.nfaults++
	*fr.exits = append(*fr.exits, Exit{St: st, Fault: true, Msg: msg})
}

// guard handles an implicit VM fault site: normally the no-fault condition becomes a fact of the
// path (partial correctness modulo faults); under a nofault contract the path forks into a fault exit.
func (e *Engine) guard(fr *frame, st *State, ok *sx.T, what string, k func(st *State)) {
	if fr.ver != nil && fr.ver.explicitFaults {
		e.branch(st, ok, k, func(st *State) { e.fault(fr, st, what) })
		return
	}
	st.facts = append(st.facts, ok)
	k(st)
}

func (e *Engine) name(st *State, v Val) Val {
	if v.T == nil || v.Deser != nil || len(v.T.String()) < 48 || v.Ty.K == spec.KUnit || v.Ty.K == spec.KLog {
		return v
	}
	n := e.sym("t", v.Ty.Sort())
	st.defs = append(st.defs, sx.App("=", n, v.T))
	v.T = n
	return v
}

func (e *Engine) setStore(fr *frame, st *State, ns *sx.T, key *sx.T) {
	if e.writeLog != nil {
		*e.writeLog = append(*e.writeLog, writeRec{key: key, defs: st.defs})
	}
	old := st.store
	n := e.sym("st", "Store")
	st.defs = append(st.defs, sx.App("=", n, ns))
	st.store = n
	st.dirty = true
	// snapshot frame: a write to a key outside a prefix P leaves the Find snapshot of P unchanged
	// (count, keys in order, positions); stated for every P, instantiated where such snapshots are mentioned
	if !e.Sweep {
		spec.DeclareSnapshots()
		pq, jq, kq := sx.Atom("p?sf"), sx.Atom("j?sf"), sx.Atom("k?sf")
		out := sx.Not(sx.App("str.prefixof", pq, key))
		mkq := func(vars []*sx.T, sorts []string, a, b *sx.T) *sx.T {
			var bs []*sx.T
			for i, v := range vars {
				bs = append(bs, sx.List(v, sx.Atom(sorts[i])))
			}
			return sx.List(sx.Atom("forall"), sx.List(bs...), sx.List(sx.Atom("!"), sx.Implies(out, sx.App("=", a, b)),
				sx.Atom(":pattern"), sx.List(a), sx.Atom(":pattern"), sx.List(b)))
		}
		st.facts = append(st.facts,
			mkq([]*sx.T{pq}, []string{"String"}, sx.App("cnt", n, pq), sx.App("cnt", old, pq)),
			mkq([]*sx.T{pq, jq}, []string{"String", "Int"}, sx.App("skey", n, pq, jq), sx.App("skey", old, pq, jq)),
			mkq([]*sx.T{pq, kq}, []string{"String", "String"}, sx.App("sidx", n, pq, kq), sx.App("sidx", old, pq, kq)))
	}
	// fold update laws
	if fr.ver != nil && fr.ver.sp != nil {
		for fname, fd := range fr.ver.sp.Folds {
			contrib := func(store *sx.T) *sx.T {
				env := spec.NewEnv(fr.ver.sp, e.Structs)
				env.Vars[fd.Store] = spec.TV{T: store, Ty: spec.Type{K: spec.KStore}}
				env.Vars[fd.KeyVar] = spec.TV{T: key, Ty: spec.Type{K: spec.KBytes}}
				has := sx.Not(sx.App("(_ is None)", sx.App("select", store, key)))
				return sx.Ite(sx.And(has, env.Tr(fd.Where).T), env.Tr(fd.Summand).T, sx.Int(0))
			}
			st.defs = append(st.defs, sx.App("=", sx.App("fold_"+fname, n),
				sx.App("+", sx.App("-", sx.App("fold_"+fname, old), contrib(old)), contrib(n))))
		}
	}
}

// ---- lists ---------------------------------------------------------------------

func lenOf(v Val) *sx.T {
	switch v.Ty.K {
	case spec.KNB:
		return sx.App("str.len", v.bytes())
	case spec.KList:
		if v.T.Head() == "mk"+v.Ty.Name {
			return v.T.L[2]
		}
		return sx.App(v.Ty.Name+"_len", v.T)
	case spec.KMap:
		return sx.App("map_len", v.T)
	}
	panic(fmt.Sprintf("len of %s (%v)", v.Ty.Sort(), v.T))
}

func arrOf(v Val) *sx.T {
	if v.T.Head() == "mk"+v.Ty.Name {
		return v.T.L[3]
	}
	return sx.App(v.Ty.Name+"_arr", v.T)
}

func (e *Engine) listAppend(l Val, items ...*sx.T) Val {
	n := lenOf(l)
	arr := arrOf(l)
	for i, it := range items {
		arr = sx.App("store", arr, sx.App("+", n, sx.Int(int64(i))), it)
	}
	return Val{TV: spec.TV{T: sx.App("mk"+l.Ty.Name, sx.Bool(false), sx.App("+", n, sx.Int(int64(len(items)))), arr), Ty: l.Ty}}
}

// box converts a value to the sort of a list element (only Any needs real boxing).
func (e *Engine) box(v Val, to spec.Type) *sx.T {
	if to.K != spec.KAny || v.Ty.K == spec.KAny {
		return v.T
	}
	return e.uf("box_"+v.Ty.Sort(), to, v).T
}

// ---- expression evaluation (CPS) ------------------------------------------------

type cont func(st *State, v Val)

func (e *Engine) evalList(fr *frame, st *State, es []ast.Expr, k func(st *State, vs []Val)) {
	if len(es) == 0 {
		k(st, nil)
		return
	}
	e.eval(fr, st, es[0], func(st *State, v Val) {
		e.evalList(fr, st, es[1:], func(st *State, vs []Val) {
			k(st, append([]Val{v}, vs...))
		})
	})
}

func (e *Engine) branch(st *State, cond *sx.T, kt, kf func(st *State)) {
	if cond.IsAtom() && cond.A == "true" {
		kt(st)
		return
	}
	if cond.IsAtom() && cond.A == "false" {
		kf(st)
		return
	}
	nc := sx.Not(cond)
	for _, c := range st.pc {
		if sx.Eq(c, cond) {
			kt(st)
			return
		}
		if sx.Eq(c, nc) {
			kf(st)
			return
		}
	}
	a := st.clone()
	a.pc = append(a.pc, cond)
	kt(a)
	b := st.clone()
	b.pc = append(b.pc, sx.Not(cond))
	kf(b)
}

func constVal(tv types.TypeAndValue) (Val, bool) {
	if tv.Value == nil {
		return Val{}, false
	}
	switch tv.Value.Kind() {
	case constant.Int:
		return mk(sx.IntS(tv.Value.ExactString()), spec.KInt), true
	case constant.Bool:
		return mk(sx.Bool(constant.BoolVal(tv.Value)), spec.KBool), true
	case constant.String:
		return nbv(sx.Str(constant.StringVal(tv.Value))), true
	}
	return Val{}, false
}

func (e *Engine) lookup(fr *frame, st *State, obj types.Object) (Val, bool) {
	if v, ok := st.vars[obj]; ok {
		return v, true
	}
	if v, ok := e.globals[obj]; ok {
		return v, true
	}
	return Val{}, false
}

func isNumeral(t *sx.T) bool {
	if !t.IsAtom() || t.A == "" {
		return false
	}
	for _, c := range t.A {
		if c < '0' || c > '9' {
			return false
		}
	}
	return true
}

func byteTerm(v Val) *sx.T {
	// an integer used as a byte inside a byte-slice literal or append
	if v.T.IsAtom() {
		var n int
		if _, err := fmt.Sscanf(v.T.A, "%d", &n); err == nil && n >= 0 && n < 256 {
			return sx.Str(string([]byte{byte(n)}))
		}
	}
	return sx.App("str.from_code", v.T)
}

func cat(parts ...*sx.T) *sx.T {
	var keep []*sx.T
	for _, p := range parts {
		if p.IsAtom() && p.A == `""` {
			continue
		}
		keep = append(keep, p)
	}
	switch len(keep) {
	case 0:
		return sx.Str("")
	case 1:
		return keep[0]
	}
	return sx.App("str.++", keep...)
}

func (e *Engine) eval(fr *frame, st *State, x ast.Expr, k cont) {
	info := fr.info
	if tv, ok := info.Types[x]; ok {
		if v, ok := constVal(tv); ok {
			k(st, v)
			return
		}
	}
	switch x := x.(type) {
	case *ast.ParenExpr:
		e.eval(fr, st, x.X, k)
	case *ast.Ident:
		if x.Name == "nil" {
			if tv, ok := info.Types[x]; ok && tv.Type != nil {
				if b, isBasic := tv.Type.(*types.Basic); !isBasic || b.Kind() != types.UntypedNil {
					ty := e.typeOf(tv.Type)
					if ty.K != spec.KUnit {
						k(st, Val{TV: spec.TV{T: e.zeroGo(tv.Type), Ty: ty}})
						return
					}
				}
			}
			k(st, mk(spec.NilNB, spec.KNB))
			return
		}
		obj := info.Uses[x]
		if obj == nil {
			obj = info.Defs[x]
		}
		if v, ok := e.lookup(fr, st, obj); ok {
			k(st, v)
			return
		}
		var have []string
		for o := range st.vars {
			have = append(have, o.Name())
		}
		panic(fmt.Sprintf("unbound identifier %s in %s (line %d); have %v", x.Name, fr.fn.Name(), fr.pkg.Fset.Position(x.Pos()).Line, have))
	case *ast.SelectorExpr:
		if sel, ok := info.Selections[x]; ok && sel.Kind() == types.FieldVal {
			e.eval(fr, st, x.X, func(st *State, v Val) {
				if idx := sel.Index(); len(idx) > 1 {
					// a field promoted from embedded structs: walk the path of embedded fields first
					cur := sel.Recv()
					for _, i := range idx[:len(idx)-1] {
						if p, isPtr := cur.Underlying().(*types.Pointer); isPtr {
							cur = p.Elem()
						}
						f := cur.Underlying().(*types.Struct).Field(i)
						v = Val{TV: spec.TV{T: sx.App(v.Ty.Name+"_"+f.Name(), v.T), Ty: e.typeOf(f.Type())}}
						cur = f.Type()
					}
				}
				ft := e.typeOf(sel.Type())
				t := sx.App(v.Ty.Name+"_"+x.Sel.Name, v.T)
				if v.T.IsAtom() { // a named constructor application: project it directly
					for i := len(st.defs) - 1; i >= 0; i-- {
						d := st.defs[i]
						if d.L[1].IsAtom() && d.L[1].A == v.T.A {
							if d.L[2].Head() == "mk"+v.Ty.Name {
								v.T = d.L[2]
							}
							break
						}
					}
				}
				if v.T.Head() == "mk"+v.Ty.Name {
					for i, f := range e.Structs[v.Ty.Name] {
						if f.Name == x.Sel.Name {
							t = v.T.L[i+1]
						}
					}
				}
				if b, ok := sel.Type().Underlying().(*types.Basic); ok && e.Go64 && ft.K == spec.KInt && !isNumeral(t) {
					// a field of a fixed-width integer type holds a value of that type (type invariant of Go values)
					if lo, hi, ok := intRange(b.Kind()); ok {
						st.facts = append(st.facts, sx.App("<=", sx.IntS(lo), t), sx.App("<=", t, sx.IntS(hi)))
					}
				}
				k(st, Val{TV: spec.TV{T: t, Ty: ft}})
			})
			return
		}
		if v, ok := e.lookup(fr, st, info.Uses[x.Sel]); ok {
			k(st, v)
			return
		}
		if sel, ok := info.Selections[x]; ok && sel.Kind() == types.MethodVal && e.Go64 {
			// a method value handed on as a function: opaque (a call of it inside a verified callee is a logged callback)
			k(st, unit())
			return
		}
		if gv, ok := info.Uses[x.Sel].(*types.Var); ok && e.Go64 && gv.Pkg() != nil && gv.Parent() == gv.Pkg().Scope() && e.Pkgs[gv.Pkg().Path()] == nil {
			// a package-level variable of a library (base64.StdEncoding, neorpc.ErrInsufficientFunds): an opaque constant
			ty := spec.Type{K: spec.KAny}
			func() {
				defer func() { recover() }()
				ty = e.typeOf(gv.Type())
			}()
			if ty.K == spec.KUnit {
				k(st, unit())
				return
			}
			c := sx.Atom("lib_" + gv.Pkg().Name() + "_" + gv.Name())
			e.extraFn["lib:"+c.A] = fmt.Sprintf("(declare-const %s %s)", c.A, ty.Sort())
			k(st, Val{TV: spec.TV{T: c, Ty: ty}})
			return
		}
		panic("unsupported selector " + x.Sel.Name)
	case *ast.UnaryExpr:
		e.eval(fr, st, x.X, func(st *State, v Val) {
			switch x.Op {
			case token.NOT:
				k(st, mk(sx.Not(v.T), spec.KBool))
			case token.SUB:
				k(st, mk(sx.App("-", v.T), spec.KInt))
			case token.AND:
				// a pointer is identified with the value it points to (dialect go64); a callee outside the verified code that
				// receives &x leaves x unconstrained afterwards (see havocAddressed)
				if !e.Go64 {
					panic("unary & outside dialect go64")
				}
				if v.Ty.K == spec.KStruct && v.T != nil && len(e.Structs[v.Ty.Name]) > 0 {
					spec.DeclareNilPtr(v.Ty.Name) // the address of something is not nil
					st.facts = append(st.facts, sx.Not(sx.App("isnilp_"+v.Ty.Name, v.T)))
				}
				k(st, v)
			default:
				panic("unary " + x.Op.String())
			}
		})
	case *ast.BinaryExpr:
		if x.Op == token.LAND || x.Op == token.LOR {
			// short-circuit: the right operand may have side conditions (faults); evaluate on a branch and merge
			e.eval(fr, st, x.X, func(st *State, l Val) {
				e.mergeBranches(fr, st, func(kk cont) {
					e.branch(st, l.T, func(st *State) {
						if x.Op == token.LAND {
							e.eval(fr, st, x.Y, kk)
						} else {
							kk(st, mk(sx.Bool(true), spec.KBool))
						}
					}, func(st *State) {
						if x.Op == token.LAND {
							kk(st, mk(sx.Bool(false), spec.KBool))
						} else {
							e.eval(fr, st, x.Y, kk)
						}
					})
				}, k)
			})
			return
		}
		e.eval(fr, st, x.X, func(st *State, l Val) {
			e.eval(fr, st, x.Y, func(st *State, r Val) {
				if x.Op == token.QUO || x.Op == token.REM {
					e.guard(fr, st, sx.Not(sx.App("=", r.T, sx.Int(0))), "division by zero", func(st *State) {
						res := e.binop(x.Op, l, r)
						if x.Op == token.REM && !isNumeral(r.T) {
							// arithmetic hint for a symbolic modulus (ring indices): for 0 <= a < 2n, a % n is a - n or a.
							// A consequence of the definition of %, stated so that the solvers need no nonlinear reasoning.
							hint := sx.Implies(sx.And(sx.App(">=", l.T, sx.Int(0)), sx.App(">", r.T, sx.Int(0)), sx.App("<", l.T, sx.App("*", sx.Int(2), r.T))),
								sx.App("=", res.T, sx.Ite(sx.App(">=", l.T, r.T), sx.App("-", l.T, r.T), l.T)))
							st.facts = append(st.facts, hint)
						}
						k(st, res)
					})
					return
				}
				res := e.binop(x.Op, l, r)
				if x.Op == token.ADD || x.Op == token.SUB || x.Op == token.MUL {
					e.checkOverflow(fr, st, x, res) // dialect go64 only: the result must fit the static type of the expression
				}
				k(st, res)
			})
		})
	case *ast.CompositeLit:
		t := info.Types[x].Type
		if isByteSlice(t) {
			e.evalList(fr, st, x.Elts, func(st *State, vs []Val) {
				var parts []*sx.T
				var inRange []*sx.T
				for _, v := range vs {
					parts = append(parts, byteTerm(v))
					if !isNumeral(v.T) { // a computed value stored into a buffer must be a byte, else the VM faults
						inRange = append(inRange, sx.App("<=", sx.Int(0), v.T), sx.App("<=", v.T, sx.Int(255)))
					}
				}
				if len(inRange) == 0 {
					k(st, nbv(cat(parts...)))
					return
				}
				e.guard(fr, st, sx.And(inRange...), "value stored into a byte buffer is not a byte", func(st *State) { k(st, nbv(cat(parts...))) })
			})
			return
		}
		ty := e.typeOf(t)
		if ty.K == spec.KList {
			e.evalList(fr, st, x.Elts, func(st *State, vs []Val) {
				l := Val{TV: spec.TV{T: sx.App("mk"+ty.Name, sx.Bool(false), sx.Int(0), sx.Atom("arr0_"+ty.Name)), Ty: ty}}
				var items []*sx.T
				for _, v := range vs {
					items = append(items, e.box(v, e.Lists[ty.Name]))
				}
				if len(items) > 0 {
					l = e.listAppend(l, items...)
				}
				k(st, l)
			})
			return
		}
		if ty.K == spec.KMap {
			k(st, e.freshOf(ty, "map"))
			return
		}
		if ty.K != spec.KStruct {
			panic("composite literal of " + t.String())
		}
		fs := e.Structs[ty.Name]
		vals := make([]*sx.T, len(fs))
		for i, f := range fs {
			vals[i] = e.zero(f.Ty)
		}
		var fill func(i int, st *State)
		fill = func(i int, st *State) {
			if i == len(x.Elts) {
				k(st, mkS(sx.App("mk"+ty.Name, vals...), ty.Name))
				return
			}
			if kv, ok := x.Elts[i].(*ast.KeyValueExpr); ok {
				e.eval(fr, st, kv.Value, func(st *State, v Val) {
					for j, f := range fs {
						if f.Name == kv.Key.(*ast.Ident).Name {
							vals[j] = v.T
						}
					}
					fill(i+1, st)
				})
				return
			}
			e.eval(fr, st, x.Elts[i], func(st *State, v Val) {
				vals[i] = v.T
				fill(i+1, st)
			})
		}
		fill(0, st)
	case *ast.IndexExpr:
		e.eval(fr, st, x.X, func(st *State, v Val) {
			e.eval(fr, st, x.Index, func(st *State, i Val) {
				switch v.Ty.K {
				case spec.KNB:
					e.guard(fr, st, sx.And(sx.App("<=", sx.Int(0), i.T), sx.App("<", i.T, lenOf(v))), "index out of range", func(st *State) {
						k(st, mk(sx.App("str.to_code", sx.App("str.at", v.bytes(), i.T)), spec.KInt))
					})
				case spec.KList:
					e.guard(fr, st, sx.And(sx.App("<=", sx.Int(0), i.T), sx.App("<", i.T, lenOf(v))), "index out of range", func(st *State) {
						k(st, Val{TV: spec.TV{T: sx.App("select", arrOf(v), i.T), Ty: e.Lists[v.Ty.Name]}})
					})
				case spec.KMap:
					k(st, e.uf("map_get", spec.Type{K: spec.KAny}, v, i))
				default:
					panic("index of " + v.Ty.Sort())
				}
			})
		})
	case *ast.SliceExpr:
		e.eval(fr, st, x.X, func(st *State, v Val) {
			lo := func(kk func(st *State, t *sx.T)) {
				if x.Low == nil {
					kk(st, sx.Int(0))
					return
				}
				e.eval(fr, st, x.Low, func(st *State, l Val) { kk(st, l.T) })
			}
			lo(func(st *State, l *sx.T) {
				hi := func(kk func(st *State, t *sx.T)) {
					if x.High == nil {
						kk(st, lenOf(v))
						return
					}
					e.eval(fr, st, x.High, func(st *State, h Val) { kk(st, h.T) })
				}
				hi(func(st *State, h *sx.T) {
					e.guard(fr, st, sx.And(sx.App("<=", sx.Int(0), l), sx.App("<=", l, h), sx.App("<=", h, lenOf(v))), "slice bounds out of range", func(st *State) {
						if v.Ty.K == spec.KNB {
							k(st, nbv(sx.App("str.substr", v.bytes(), l, sx.App("-", h, l))))
							return
						}
						k(st, e.uf("slice_"+v.Ty.Sort(), v.Ty, v, mk(l, spec.KInt), mk(h, spec.KInt)))
					})
				})
			})
		})
	case *ast.StarExpr:
		e.eval(fr, st, x.X, k)
	case *ast.FuncLit:
		u := unit()
		u.Fn = x
		k(st, u)
	case *ast.TypeAssertExpr:
		e.eval(fr, st, x.X, func(st *State, v Val) {
			r := e.convert(v, e.typeOf(info.Types[x.Type].Type))
			if v.Deser != nil && r.Ty.K == spec.KList {
				// a deserialised array is a well-formed, non-Null list (a fact about this value)
				st.facts = append(st.facts, sx.Not(sx.App(r.Ty.Name+"_null", r.T)), sx.App(">=", lenOf(r), sx.Int(0)))
			}
			k(st, r)
		})
	case *ast.CallExpr:
		e.call(fr, st, x, func(st *State, rets []Val) {
			if len(rets) == 0 {
				k(st, unit())
			} else {
				k(st, rets[0])
			}
		})
	default:
		panic(fmt.Sprintf("unsupported expression %T", x))
	}
}

// convert models the VM CONVERT behind a type assertion.
func (e *Engine) convert(v Val, to spec.Type) Val {
	if v.Pair != nil {
		fs := e.Structs[to.Name]
		if to.K != spec.KStruct || len(fs) != 2 {
			panic("iterator item asserted to a non-pair type")
		}
		return mkS(sx.App("mk"+to.Name, e.convert(v.Pair[0], fs[0].Ty).T, e.convert(v.Pair[1], fs[1].Ty).T), to.Name)
	}
	if v.Deser != nil {
		if to.K != spec.KStruct && to.K != spec.KList {
			return e.uf("deser_"+to.Sort(), to, nbv(v.Deser))
		}
		return Val{TV: spec.TV{T: sx.App("deser_"+to.Name, v.Deser), Ty: to}}
	}
	switch {
	case v.Ty.K == to.K && v.Ty.Name == to.Name:
		return v
	case v.Ty.K == spec.KAny && to.K != spec.KUnit:
		r := e.uf("unbox_"+to.Sort(), to, v)
		return r
	case to.K == spec.KAny:
		return v
	case v.Ty.K == spec.KStruct && to.K == spec.KStruct, v.Ty.K == spec.KList && to.K == spec.KList:
		return e.uf("cast_"+v.Ty.Sort()+"_"+to.Sort(), to, v)
	case v.Ty.K == spec.KOpt && (to.K == spec.KStruct || to.K == spec.KList):
		return e.uf("unbox_"+to.Sort(), to, mk(v.T, spec.KOpt))
	case v.Ty.K == spec.KOpt && to.K == spec.KNB:
		return mk(sx.Ite(sx.App("(_ is None)", v.T), spec.NilNB, spec.MkNB(sx.App("val", v.T))), spec.KNB)
	case v.Ty.K == spec.KOpt && to.K == spec.KInt:
		return mk(sx.App("b2i", sx.App("val", v.T)), spec.KInt)
	case v.Ty.K == spec.KOpt && to.K == spec.KBool:
		return mk(sx.And(sx.Not(sx.App("(_ is None)", v.T)), sx.Not(sx.App("=", sx.App("b2i", sx.App("val", v.T)), sx.Int(0)))), spec.KBool)
	case v.Ty.K == spec.KInt && to.K == spec.KNB:
		return nbv(sx.App("i2b", v.T))
	case v.Ty.K == spec.KNB && to.K == spec.KInt:
		return mk(sx.App("b2i", v.bytes()), spec.KInt)
	}
	panic(fmt.Sprintf("unsupported conversion %s -> %s", v.Ty.Sort(), to.Sort()))
}

func (e *Engine) binop(op token.Token, l, r Val) Val {
	B := spec.KBool
	if l.Ty.K == spec.KOpt {
		switch op {
		case token.NEQ:
			return mk(sx.Not(sx.App("(_ is None)", l.T)), B)
		case token.EQL:
			return mk(sx.App("(_ is None)", l.T), B)
		}
	}
	compound := func(v Val) bool {
		return v.Ty.K == spec.KList || v.Ty.K == spec.KAny || v.Ty.K == spec.KMap || v.Ty.K == spec.KStruct
	}
	if (l.Ty.K == spec.KNB || r.Ty.K == spec.KNB) && !compound(l) && !compound(r) {
		isNil := func(v Val) bool { return sx.Eq(v.T, spec.NilNB) }
		switch op {
		case token.EQL, token.NEQ:
			var t *sx.T
			switch {
			case isNil(r):
				t = sx.App("isnull", l.T)
				if l.T.Head() == "mkNB" {
					t = l.T.L[1]
				}
			case isNil(l):
				t = sx.App("isnull", r.T)
			default:
				t = sx.EqT(l.bytes(), r.bytes())
			}
			if op == token.NEQ {
				t = sx.Not(t)
			}
			return mk(t, B)
		case token.ADD:
			return nbv(cat(l.bytes(), r.bytes()))
		}
	}
	if (l.Ty.K == spec.KList || l.Ty.K == spec.KAny || l.Ty.K == spec.KMap || l.Ty.K == spec.KStruct) && (op == token.EQL || op == token.NEQ) && sx.Eq(r.T, spec.NilNB) {
		var t *sx.T
		switch l.Ty.K {
		case spec.KList:
			t = sx.App(l.Ty.Name+"_null", l.T)
			if l.T.Head() == "mk"+l.Ty.Name {
				t = l.T.L[1]
			}
		case spec.KAny:
			t = sx.App("=", l.T, sx.Atom("AnyNull"))
		case spec.KStruct:
			if e.Go64 { // only pointers can be compared with nil: nil-ness is a predicate on the value the pointer is identified with
				spec.DeclareNilPtr(l.Ty.Name)
				t = sx.App("isnilp_"+l.Ty.Name, l.T)
			} else {
				t = sx.Bool(false)
			}
		default:
			t = sx.Bool(false)
		}
		if op == token.NEQ {
			t = sx.Not(t)
		}
		return mk(t, B)
	}
	if l.Ty.K == spec.KAny || r.Ty.K == spec.KAny {
		if l.Ty.K != spec.KAny {
			l = Val{TV: spec.TV{T: e.box(l, r.Ty), Ty: r.Ty}}
		}
		if r.Ty.K != spec.KAny {
			r = Val{TV: spec.TV{T: e.box(r, l.Ty), Ty: l.Ty}}
		}
	}
	switch op {
	case token.QUO:
		return mk(spec.Tdiv(l.T, r.T), spec.KInt)
	case token.REM:
		return mk(spec.Tmod(l.T, r.T), spec.KInt)
	case token.ADD, token.SUB, token.MUL:
		return mk(sx.App(op.String(), l.T, r.T), spec.KInt)
	case token.LSS, token.LEQ, token.GTR, token.GEQ:
		return mk(sx.App(op.String(), l.T, r.T), B)
	case token.EQL:
		return mk(sx.EqT(l.T, r.T), B)
	case token.NEQ:
		return mk(sx.Not(sx.EqT(l.T, r.T)), B)
	}
	panic("unsupported operator " + op.String())
}

// mergeBranches runs body with a collecting continuation and merges the
// collected states if they agree on effects.
func (e *Engine) mergeBranches(fr *frame, entry *State, body func(kk cont), k cont) {
	type ex struct {
		st *State
		v  Val
	}
	var col []ex
	entryPC := len(entry.pc)
	entryFacts := len(entry.facts)
	lostBefore := e.nfaults + fr.escaped
	body(func(st *State, v Val) { col = append(col, ex{st, v}) })
	if len(col) == 0 {
		return
	}
	mergeable := len(col) > 1
	for _, c := range col[1:] {
		if logKey(c.st.notifs) != logKey(col[0].st.notifs) || logKey(c.st.xcalls) != logKey(col[0].st.xcalls) || xmKey(c.st) != xmKey(col[0].st) || c.st.dirty != col[0].st.dirty {
			mergeable = false
		}
		if (c.v.T == nil) != (col[0].v.T == nil) || c.v.Ty != col[0].v.Ty || c.v.Deser != nil {
			mergeable = false
		}
	}
	if !mergeable {
		for _, c := range col {
			k(c.st, c.v)
		}
		return
	}
	m := col[0].st.clone()
	m.pc = m.pc[:entryPC]
	seen := map[string]bool{}
	m.defs = nil
	for _, c := range col {
		for _, d := range c.st.defs {
			if !seen[d.String()] {
				seen[d.String()] = true
				m.defs = append(m.defs, d)
			}
		}
	}
	conds := make([]*sx.T, len(col))
	m.facts = m.facts[:entryFacts]
	seenF := map[string]bool{}
	for i, c := range col {
		conds[i] = sx.And(c.st.pc[entryPC:]...)
		for _, f := range c.st.facts[entryFacts:] {
			g := sx.Implies(conds[i], f)
			if !seenF[g.String()] {
				seenF[g.String()] = true
				m.facts = append(m.facts, g)
			}
		}
	}
	pick := func(get func(i int) *sx.T) *sx.T {
		t := get(len(col) - 1)
		for i := len(col) - 2; i >= 0; i-- {
			t = sx.Ite(conds[i], get(i), t)
		}
		return t
	}
	// variables
	for obj, v0 := range col[0].st.vars {
		same := true
		for _, c := range col[1:] {
			if v, ok := c.st.vars[obj]; !ok || v.T == nil || v0.T == nil || !sx.Eq(v.T, v0.T) {
				same = false
			}
		}
		if same || v0.T == nil {
			continue
		}
		ok := true
		for _, c := range col {
			if v, has := c.st.vars[obj]; !has || v.T == nil || v.Ty != v0.Ty {
				ok = false
			}
		}
		if !ok {
			if os.Getenv("GOVC_DEBUG") != "" {
				for i, c := range col {
					v, has := c.st.vars[obj]
					fmt.Fprintf(os.Stderr, "merge drops %s: branch %d has=%v T=%v Ty=%+v (v0 %+v)\n", obj.Name(), i, has, v.T, v.Ty, v0.Ty)
				}
			}
			delete(m.vars, obj)
			continue
		}
		nv := v0
		nv.T = pick(func(i int) *sx.T { return col[i].st.vars[obj].T })
		nv.KnownLen, nv.Cells = 0, nil
		m.vars[obj] = e.name(m, nv)
		if nv.Ty.K == spec.KList && !m.vars[obj].T.IsAtom() {
			n := e.sym("t", nv.Ty.Sort())
			m.defs = append(m.defs, sx.App("=", n, nv.T))
			nv.T = n
			m.vars[obj] = nv
		}
		if nv.Ty.K == spec.KList && m.vars[obj].T.IsAtom() {
			// the merged list's length as a term of its own (triggers over len(.) then find the merged value)
			m.facts = append(m.facts, sx.App("=", sx.App(nv.Ty.Name+"_len", m.vars[obj].T),
				pick(func(i int) *sx.T { return sx.App(nv.Ty.Name+"_len", col[i].st.vars[obj].T) })))
		}
	}
	// store
	sameStore := true
	for _, c := range col[1:] {
		if !sx.Eq(c.st.store, col[0].st.store) {
			sameStore = false
		}
	}
	if !sameStore {
		n := e.sym("st", "Store")
		m.defs = append(m.defs, sx.App("=", n, pick(func(i int) *sx.T { return col[i].st.store })))
		m.store = n
	}
	var rv Val
	if col[0].v.T != nil {
		rv = col[0].v
		rv.T = pick(func(i int) *sx.T { return col[i].v.T })
		rv = e.name(m, rv)
	} else {
		rv = col[0].v
	}
	if e.nfaults+fr.escaped != lostBefore {
		m.pc = append(m.pc, sx.Or(conds...))
	}
	k(m, rv)
}


// intRange is the value range of a fixed-width integer kind (64-bit platform for int and uint).
func intRange(k types.BasicKind) (lo, hi string, ok bool) {
	switch k {
	case types.Uint8:
		return "0", "255", true
	case types.Uint16:
		return "0", "65535", true
	case types.Uint32:
		return "0", "4294967295", true
	case types.Uint64, types.Uint, types.Uintptr:
		return "0", "18446744073709551615", true
	case types.Int8:
		return "-128", "127", true
	case types.Int16:
		return "-32768", "32767", true
	case types.Int32:
		return "-2147483648", "2147483647", true
	case types.Int64, types.Int:
		return "-9223372036854775808", "9223372036854775807", true
	}
	return "", "", false
}
