// Package sx is a tiny S-expression term library used for SMT-LIB terms.
package sx

import (
	"fmt"
	"strings"
	"sync/atomic"
)

// T is an S-expression: an atom (A != "", L == nil) or a list.
type T struct {
	A   string
	L   []*T
	key atomic.Pointer[string] // memoised String(); terms are shared between solver goroutines
}

func Atom(a string) *T { return &T{A: a} }

func List(xs ...*T) *T { return &T{L: xs} }

// App builds (head args...).
func App(head string, args ...*T) *T {
	l := make([]*T, 0, len(args)+1)
	l = append(l, Atom(head))
	l = append(l, args...)
	return &T{L: l}
}

func Int(n int64) *T {
	if n < 0 {
		return App("-", Atom(fmt.Sprint(-n)))
	}
	return Atom(fmt.Sprint(n))
}

func IntS(s string) *T {
	if strings.HasPrefix(s, "-") {
		return App("-", Atom(s[1:]))
	}
	return Atom(s)
}

func Bool(b bool) *T {
	if b {
		return Atom("true")
	}
	return Atom("false")
}

// Str builds an SMT-LIB string literal for raw bytes.
func Str(s string) *T {
	var b strings.Builder
	b.WriteByte('"')
	for _, c := range []byte(s) {
		if c >= 32 && c < 127 && c != '"' && c != '\\' {
			b.WriteByte(c)
		} else {
			fmt.Fprintf(&b, "\\u{%x}", c)
		}
	}
	b.WriteByte('"')
	return Atom(b.String())
}

func (t *T) IsAtom() bool { return t.L == nil }

func (t *T) Head() string {
	if t.L == nil || len(t.L) == 0 || !t.L[0].IsAtom() {
		return ""
	}
	return t.L[0].A
}

func (t *T) String() string {
	if t.L == nil {
		return t.A
	}
	if k := t.key.Load(); k != nil {
		return *k
	}
	var b strings.Builder
	b.WriteByte('(')
	for i, x := range t.L {
		if i > 0 {
			b.WriteByte(' ')
		}
		b.WriteString(x.String())
	}
	b.WriteByte(')')
	k := b.String()
	t.key.Store(&k)
	return k
}

func Eq(a, b *T) bool { return a.String() == b.String() }

// Subst replaces atoms by terms.
func Subst(t *T, env map[string]*T) *T {
	if t.L == nil {
		if r, ok := env[t.A]; ok {
			return r
		}
		return t
	}
	changed := false
	l := make([]*T, len(t.L))
	for i, x := range t.L {
		l[i] = Subst(x, env)
		if l[i] != x {
			changed = true
		}
	}
	if !changed {
		return t
	}
	return &T{L: l}
}

// Parse parses all top-level S-expressions of src.
func Parse(src string) ([]*T, error) {
	toks, err := tokenize(src)
	if err != nil {
		return nil, err
	}
	stack := [][]*T{{}}
	for _, tk := range toks {
		switch tk {
		case "(":
			stack = append(stack, []*T{})
		case ")":
			if len(stack) < 2 {
				return nil, fmt.Errorf("unbalanced )")
			}
			top := stack[len(stack)-1]
			stack = stack[:len(stack)-1]
			if top == nil {
				top = []*T{}
			}
			stack[len(stack)-1] = append(stack[len(stack)-1], &T{L: top})
		default:
			stack[len(stack)-1] = append(stack[len(stack)-1], Atom(tk))
		}
	}
	if len(stack) != 1 {
		return nil, fmt.Errorf("unbalanced (")
	}
	return stack[0], nil
}

func MustParse1(src string) *T {
	ts, err := Parse(src)
	if err != nil || len(ts) != 1 {
		panic(fmt.Sprintf("sx.MustParse1(%q): %v", src, err))
	}
	return ts[0]
}

func tokenize(s string) ([]string, error) {
	var out []string
	i, n := 0, len(s)
	for i < n {
		c := s[i]
		switch {
		case c == ' ' || c == '\t' || c == '\n' || c == '\r':
			i++
		case c == ';':
			for i < n && s[i] != '\n' {
				i++
			}
		case c == '(' || c == ')':
			out = append(out, string(c))
			i++
		case c == '"':
			j := i + 1
			for {
				if j >= n {
					return nil, fmt.Errorf("unterminated string")
				}
				if s[j] == '"' {
					if j+1 < n && s[j+1] == '"' {
						j += 2
						continue
					}
					break
				}
				j++
			}
			out = append(out, s[i:j+1])
			i = j + 1
		case c == '|':
			j := strings.IndexByte(s[i+1:], '|')
			if j < 0 {
				return nil, fmt.Errorf("unterminated |")
			}
			out = append(out, s[i:i+j+2])
			i += j + 2
		default:
			j := i
			for j < n && !strings.ContainsRune(" \t\r\n()", rune(s[j])) {
				j++
			}
			out = append(out, s[i:j])
			i = j
		}
	}
	return out, nil
}

// Walk visits every subterm; f returns false to prune.
func Walk(t *T, f func(*T) bool) {
	if !f(t) {
		return
	}
	for _, x := range t.L {
		Walk(x, f)
	}
}

// Simplifying constructors -------------------------------------------------

func And(xs ...*T) *T {
	var keep []*T
	for _, x := range xs {
		if x.IsAtom() && x.A == "true" {
			continue
		}
		if x.IsAtom() && x.A == "false" {
			return Bool(false)
		}
		if x.Head() == "and" {
			keep = append(keep, x.L[1:]...)
			continue
		}
		keep = append(keep, x)
	}
	switch len(keep) {
	case 0:
		return Bool(true)
	case 1:
		return keep[0]
	}
	return App("and", keep...)
}

func Or(xs ...*T) *T {
	var keep []*T
	for _, x := range xs {
		if x.IsAtom() && x.A == "false" {
			continue
		}
		if x.IsAtom() && x.A == "true" {
			return Bool(true)
		}
		keep = append(keep, x)
	}
	switch len(keep) {
	case 0:
		return Bool(false)
	case 1:
		return keep[0]
	}
	return App("or", keep...)
}

func Not(x *T) *T {
	if x.IsAtom() && x.A == "true" {
		return Bool(false)
	}
	if x.IsAtom() && x.A == "false" {
		return Bool(true)
	}
	if x.Head() == "not" {
		return x.L[1]
	}
	return App("not", x)
}

func Implies(a, b *T) *T {
	if a.IsAtom() && a.A == "true" {
		return b
	}
	if a.IsAtom() && a.A == "false" {
		return Bool(true)
	}
	if b.IsAtom() && b.A == "true" {
		return Bool(true)
	}
	return App("=>", a, b)
}

func Ite(c, a, b *T) *T {
	if c.IsAtom() && c.A == "true" {
		return a
	}
	if c.IsAtom() && c.A == "false" {
		return b
	}
	if Eq(a, b) {
		return a
	}
	return App("ite", c, a, b)
}

func EqT(a, b *T) *T {
	if Eq(a, b) {
		return Bool(true)
	}
	return App("=", a, b)
}

// ExpandLets replaces (let ((x e) ...) body) by body with the bindings substituted (solvers print values that way).
func ExpandLets(t *T) *T {
	if t.L == nil {
		return t
	}
	if t.Head() == "let" && len(t.L) == 3 {
		env := map[string]*T{}
		for _, b := range t.L[1].L {
			if len(b.L) == 2 && b.L[0].IsAtom() {
				env[b.L[0].A] = ExpandLets(Subst(b.L[1], env))
			}
		}
		return ExpandLets(Subst(t.L[2], env))
	}
	l := make([]*T, len(t.L))
	for i, x := range t.L {
		l[i] = ExpandLets(x)
	}
	return &T{L: l}
}
